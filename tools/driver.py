#!/usr/bin/env python3
"""Driver of the contract-based checks (DESIGN.md §3, §9).

  ./check <ID> [--tier quick|thorough]      decide one property on /repo's working tree
  ./check replay <path>                     re-run a replay file against the real code
  ./check all [--tier ...]                  every claimed property (convenience)

exit 0: every obligation of the property discharged; 1: VIOLATION line printed; 2: UNDECIDED.
"""
import concurrent.futures as cf
import hashlib
import json
import os
import re
import shutil
import subprocess
import sys
import time

ROOT = os.path.dirname(os.path.dirname(os.path.abspath(__file__)))
sys.path.insert(0, os.path.join(ROOT, "tools"))
import rxtract  # noqa: E402
import props as PROPS  # noqa: E402

REPO = os.environ.get("VERIF_REPO", "/repo")
WORK = os.environ.get("VERIF_WORK", os.path.join(ROOT, ".work"))
ENV = dict(os.environ, CARGO_NET_OFFLINE="true")
VERUS_RLIMIT = "60"

PANIC_MSGS = ("possible arithmetic underflow/overflow", "possible bit shift underflow/overflow",
              "possible division by zero", "precondition not satisfied", "index out of bounds",
              "possible overflow", "possible underflow")


def log(*a):
    print(*a, flush=True)


def tree_hash():
    """Hash of /repo/src working tree contents (so the evidence names what was verified)."""
    h = hashlib.sha256()
    files = [os.path.join(REPO, "Cargo.toml"), os.path.join(REPO, "build.rs")]
    for dp, dn, fns in os.walk(os.path.join(REPO, "src")):
        dn.sort()
        for fn in sorted(fns):
            files.append(os.path.join(dp, fn))
    for fn in files:
        if os.path.isfile(fn):
            with open(fn, "rb") as f:
                h.update(fn.encode())
                h.update(f.read())
    return h.hexdigest()[:16]


def expand():
    """Macro-expand /repo's current working tree (dev profile, guard off).  Cached by tree hash."""
    os.makedirs(WORK, exist_ok=True)
    th = tree_hash()
    out = os.path.join(WORK, "expanded-%s.rs" % th)
    if os.path.exists(out) and os.path.getsize(out) > 100000:
        return out, th, 0.0
    t0 = time.time()
    env = dict(ENV, CARGO_TARGET_DIR=os.path.join(WORK, "expand-target"))
    env.pop("RUSTFLAGS", None)
    p = subprocess.run(["cargo", "+nightly", "rustc", "--lib", "--offline", "--", "-Zunpretty=expanded"],
                       cwd=REPO, env=env, stdout=subprocess.PIPE, stderr=subprocess.PIPE, text=True)
    if p.returncode != 0 or len(p.stdout) < 100000:
        sys.stderr.write(p.stderr[-4000:])
        raise Undecided("macro expansion of %s failed (the tree does not compile?)" % REPO)
    for old in os.listdir(WORK):
        if old.startswith("expanded-") and old.endswith(".rs"):
            os.unlink(os.path.join(WORK, old))
    with open(out + ".tmp", "w") as f:
        f.write(p.stdout)
    os.replace(out + ".tmp", out)
    return out, th, time.time() - t0


class Undecided(Exception):
    pass


_idx_cache = {}
import threading
RENDER_LOCK = threading.Lock()
FAMILIES = ["FixedI8", "FixedU8", "FixedI16", "FixedU16", "FixedI32", "FixedU32", "FixedI64", "FixedU64", "FixedI128", "FixedU128"]


def get_index(path):
    if path not in _idx_cache:
        _idx_cache[path] = rxtract.Index(open(path).read())
    return _idx_cache[path]


_SPEC_LEMMAS = None


def spec_lemma_names():
    """Names of the proof functions defined in /verif/specs/*.rs (the lemma library; nothing in it mentions the code under verification)."""
    global _SPEC_LEMMAS
    if _SPEC_LEMMAS is None:
        _SPEC_LEMMAS = set()
        d = os.path.join(ROOT, "specs")
        for fn in os.listdir(d):
            if fn.endswith(".rs"):
                _SPEC_LEMMAS.update(re.findall(r"proof\s+fn\s+(\w+)", open(os.path.join(d, fn)).read()))
    return _SPEC_LEMMAS


def run_verus(unit, expanded, must_fail=False, sub="common"):
    """Render and verify one unit; returns dict with per-function results."""
    idx = get_index(expanded)
    base, _, fam = unit.partition("@")
    tmpl = os.path.join(ROOT, "units", base + ".rs.tmpl")
    try:
        with RENDER_LOCK:
            text, table, linemap = rxtract.render_unit(idx, tmpl, ROOT, must_fail=must_fail, params={"FAM": fam} if fam else None)
    except (KeyError, rxtract.ExtractError, ValueError) as e:
        raise Undecided("unit %s: extraction failed: %s" % (unit, e))
    udir = os.path.join(WORK, "units", sub)
    os.makedirs(udir, exist_ok=True)
    name = unit.replace("@", "_") + ("_mustfail" if must_fail else "")
    path = os.path.join(udir, name + ".rs")
    with open(path, "w") as f:
        f.write(text)
    t0 = time.time()
    cmd = ["verus", path, "--no-lifetime", "--output-json", "--time", "--error-format=json",
           "--multiple-errors", "20", "--rlimit", VERUS_RLIMIT, "--num-threads", "2"]
    p = subprocess.run(cmd, cwd=udir, stdout=subprocess.PIPE, stderr=subprocess.PIPE, text=True, env=ENV)
    if not must_fail and ("Resource limit (rlimit) exceeded" in p.stderr or "rlimit" in p.stderr.lower() and "exceeded" in p.stderr.lower()):
        # an unstable query that ran out of resources decides nothing; one retry with a four times larger budget before
        # the obligation is reported as UNDECIDED
        cmd = [c if c != VERUS_RLIMIT else str(int(VERUS_RLIMIT) * 4) for c in cmd]
        p = subprocess.run(cmd, cwd=udir, stdout=subprocess.PIPE, stderr=subprocess.PIPE, text=True, env=ENV)
    wall = time.time() - t0
    try:
        js = json.loads(p.stdout)
    except Exception:
        raise Undecided("unit %s: verus produced no JSON (exit %d): %s" % (unit, p.returncode, p.stderr[-1500:]))
    vr = js.get("verification-results", {})
    diags = []
    for ln in p.stderr.split("\n"):
        ln = ln.strip()
        if not ln.startswith("{"):
            continue
        try:
            d = json.loads(ln)
        except Exception:
            continue
        if d.get("level") != "error" or not d.get("spans"):
            continue
        diags.append(d)
    # a compile / VIR error (not a verification failure) is UNDECIDED
    if vr.get("encountered-vir-error") or ("verified" not in vr):
        msg = "; ".join(d["message"] for d in diags[:3]) or p.stderr[-800:]
        raise Undecided("unit %s does not compile under Verus: %s" % (unit, msg))
    n_real = len([x for x in table if not x.get("sig_only") and not x.get("assumed")])
    if not must_fail:
        # a run that reports an error without a located diagnostic, or that verified fewer functions than the unit
        # contains, has not decided anything
        located = [d for d in diags if d.get("spans")]
        if (vr.get("encountered-error") or not vr.get("success")) and not located:
            raise Undecided("unit %s: verus failed without a located diagnostic: %s" % (unit, p.stderr[-600:].replace("\n", " ")))
        if vr.get("verified", 0) + vr.get("errors", 0) < n_real:
            raise Undecided("unit %s: verus checked %d functions but the unit has %d real functions under contract" % (
                unit, vr.get("verified", 0) + vr.get("errors", 0), n_real))
    elif vr.get("verified", 0) + vr.get("errors", 0) == 0 and n_real > 0:
        # the twin did not get as far as verification (rustc error in the rendered unit): nothing was decided about vacuity either
        msg = "; ".join(d["message"] for d in diags[:2]) or p.stderr[-400:].replace("\n", " ")
        raise Undecided("unit %s: the must-fail rendering does not compile: %s" % (unit, msg))
    funcs = {}
    smt_total = 0.0
    for m in js.get("times-ms", {}).get("smt", {}).get("smt-run-module-times", []):
        for fb in m.get("function-breakdown", []):
            funcs[fb["function"]] = {"ok": fb.get("success", False), "ms": fb.get("time", 0), "rlimit": fb.get("rlimit", 0)}
            smt_total += fb.get("time", 0) / 1000.0
    # map diagnostics to real functions via the line map
    failures = []
    try:
        src_lines = open(path).read().split("\n")
    except OSError:
        src_lines = []
    for d in diags:
        msg = d["message"]
        prim = [s for s in d["spans"] if s.get("is_primary")] or d["spans"]
        lines = [s["line_start"] for s in d["spans"]]
        item = None
        for (a, b, it) in linemap:
            if any(a <= ln <= b for ln in lines):
                item = it
                break
        cls = "panic" if any(msg.startswith(m) for m in PANIC_MSGS) else "functional"
        if msg.startswith("precondition not satisfied"):
            # the failed precondition of a *proof* function called from a hint (lemma_* / ax_*) is a proof step of the
            # functional argument, not a panic site of the real code
            t0 = (prim[0].get("text") or [{}])[0]
            call = (t0.get("text") or "")[max(0, t0.get("highlight_start", 1) - 1):max(0, t0.get("highlight_end", 1) - 1)]
            if re.match(r"\s*(lemma_\w+|ax_\w+|\w+\s*::\s*ax_\w+)", call):
                cls = "hint"     # owned by every property that owns the item, whatever the class
        ptxt = (prim[0].get("text") or [{}])[0].get("text", "")
        if cls != "hint" and ("vticks" in ptxt or "decreases" in msg.lower() or "termination" in msg.lower()):
            # the ghost iteration counter of C17 (R14): bound assertions, counter invariants, termination measures
            cls = "ticks"
        if "rlimit" in msg.lower() or "resource limit" in msg.lower():
            cls = "rlimit"
        library = None
        if item is None:
            # a failure inside a lemma of /verif/specs (pure mathematics, no dependence on the code under verification) can only be
            # solver instability: it is reported as UNDECIDED, never as a violation
            for k in range(min(prim[0]["line_start"], len(src_lines)) - 1, -1, -1):
                mm = re.match(r"\s*(?:pub\s+)?(?:broadcast\s+)?proof\s+fn\s+(\w+)", src_lines[k])
                if mm:
                    if mm.group(1) in spec_lemma_names():
                        library = mm.group(1)
                    break
        failures.append({"unit": unit, "item": item, "class": cls, "message": msg, "library": library,
                         "line": prim[0]["line_start"], "text": (prim[0].get("text") or [{}])[0].get("text", "").strip()[:200],
                         "rendered": d.get("rendered", "")[:1500]})
    return {"unit": unit, "path": path, "table": table, "linemap": linemap, "funcs": funcs,
            "verified": vr.get("verified", 0), "errors": vr.get("errors", 0), "failures": failures,
            "smt_s": smt_total, "wall_s": wall, "cmd": " ".join(cmd), "text": text}


def scan_uncovered(expanded, results):
    """C11: which public functions are under a Verus contract, exercised by a Kani harness only, or not covered."""
    idx = get_index(expanded)
    under = set()
    for r in results:
        for row in r["table"]:
            if not row.get("assumed") and not (row.get("sig_only") and not row.get("assumed")):
                under.add(row["item"].split("::")[-1].replace("const ", ""))
    ksrc = ""
    kdir = os.path.join(ROOT, "kani", "src")
    for fn in os.listdir(kdir):
        ksrc += open(os.path.join(kdir, fn)).read()
    names = []
    for anchor in ("impl<Frac> FixedI32<Frac>", "impl<Frac: LeEqU32> FixedI32<Frac>", "impl<Frac> FixedU32<Frac>", "impl<Frac: LeEqU32> FixedU32<Frac>",
                   "pub mod transcendental", "impl<F: Fixed> Wrapping<F>"):
        for c in idx.containers(anchor):
            for f in c.children:
                if f.kind == "fn" and idx.toks[f.t0].s == "pub":
                    names.append(f.name)
    names = sorted(set(names))
    verus = [n for n in names if n in under]
    kani = [n for n in names if n not in under and re.search(r"\b%s\b" % re.escape(n), ksrc)]
    unc = [n for n in names if n not in under and n not in kani]
    return {"rule": "public fns of the 32-bit families (representatives of the macro bodies), Wrapping and transcendental",
            "under_verus_contract": len(verus), "exercised_by_kani_harness_only": kani, "not_covered": unc}


def scan_trusted(text):
    """List every assumption construct in a generated unit (DESIGN §3.8): axioms by name, assumed contracts as a count."""
    out = []
    for m in re.finditer(r"assume_specification\s*\[\s*([^\]]+)\]", text):
        out.append("assume_specification " + m.group(1).strip())
    n_assumed = 0
    for m in re.finditer(r"#\[verifier::external_body\]\s*(?:pub\s+)?(proof\s+)?fn\s+(\w+)", text):
        if m.group(1):
            out.append("axiom (external_body proof fn) " + m.group(2))
        else:
            n_assumed += 1
    if n_assumed:
        out.append("assumed callee contracts (external_body exec fns; see assumed_callee_contracts): present")
    for m in re.finditer(r"(?:proof\s+)?fn\s+(\w+)[^{;]*\{[^{}]*admit\(\)", text):
        out.append("admitted lemma " + m.group(1))
    listed = set(x.split()[-1] for x in out)
    for m in re.finditer(r"proof\s+fn\s+(ax_\w+)\s*(?:<[^>]*>)?\s*\([^)]*\)\s*(?:requires[^;{]*)?ensures[^;{]*;", text):
        if m.group(1) not in listed:
            out.append("trait-level axiom %s (abstract proof fn of a re-declared trait: assumed for the generic parameter)" % m.group(1))
    if "global size_of usize == 8" in text:
        out.append("global size_of usize == 8 (64-bit target)")
    for kw in ("assume(",):
        n = text.count(kw)
        if n:
            out.append("%s x%d" % (kw, n))
    return sorted(set(out))


def load_known():
    p = os.path.join(ROOT, "known_findings.json")
    if not os.path.exists(p):
        return []
    return json.load(open(p))


def write_replay(pid, n, payload):
    d = os.environ.get("VERIF_REPLAY_DIR", os.path.join(ROOT, "replay"))
    os.makedirs(d, exist_ok=True)
    path = os.path.join(d, "%s-%d.json" % (pid, n))
    with open(path, "w") as f:
        json.dump(payload, f, indent=1)
    return path


def check_property(pid, tier, seed):
    t0 = time.time()
    spec = PROPS.PROPERTIES[pid]
    expanded, th, exp_s = expand()
    units = list(spec.get("verus_units", []))
    if tier == "thorough":
        units += spec.get("verus_units_thorough", [])
    units = [x for u in units for x in ([u[:-1] + f for f in FAMILIES] if u.endswith("@*") else [u])]
    results = []
    undecided = []
    with cf.ThreadPoolExecutor(max_workers=10) as ex:
        futs = {ex.submit(run_verus, u, expanded, False, pid): u for u in units}
        mf = {}
        if tier == "thorough" or spec.get("must_fail_quick", True):
            mf = {ex.submit(run_verus, u, expanded, True, pid): u for u in units}
        for f in list(futs):
            try:
                results.append(f.result())
            except Undecided as e:
                undecided.append(str(e))
        mf_results = []
        for f in list(mf):
            try:
                mf_results.append(f.result())
            except Undecided as e:
                undecided.append("must-fail twin: " + str(e))
    # ---- Kani part
    kani_res = []
    import kani_run
    harnesses = list(spec.get("kani", []))
    if tier == "thorough":
        harnesses += spec.get("kani_thorough", [])
    if harnesses:
        try:
            kani_res = kani_run.run_harnesses(harnesses, REPO, WORK, ROOT, log)
        except kani_run.KaniUndecided as e:
            undecided.append(str(e))
    # ---- collect obligations owned by this property
    obligations = []
    failed = []
    fn_table = []
    trusted = set()
    for r in results:
        for t in scan_trusted(r["text"]):
            trusted.add(t)
        owned_items = {}
        for row in r["table"]:
            owners = PROPS.owners(row.get("props") or "")
            if pid in owners:
                owned_items[row["item"]] = owners[pid]
                if not row.get("sig_only"):
                    fn_table.append({k: row[k] for k in ("item", "sha256_orig", "sha256_rewritten", "rules", "src_line") if k in row})
        for row in r["table"]:
            if row["item"] in owned_items and not row.get("sig_only"):
                obligations.append({"name": "%s/%s" % (r["unit"], row["item"]), "backend": "verus",
                                    "classes": owned_items[row["item"]],
                                    "clauses": row.get("n_requires", 0) + row.get("n_ensures", 0)})
        # lemma / spec obligations of the unit (functions not in the table) count for every property using the unit
        for fl in r["failures"]:
            if fl["item"] is None and fl.get("library"):
                undecided.append("library lemma %s (specs/, pure mathematics) did not verify in unit %s: %s" % (fl["library"], r["unit"], fl["message"]))
            elif fl["item"] is None:
                failed.append(dict(fl, owned_as="lemma"))
            elif fl["item"] in owned_items:
                if any(row["item"] == fl["item"] and row.get("soft") for row in r["table"]):
                    undecided.append("soft obligation %s/%s failed (body of a shape without a proof recipe): %s" % (r["unit"], fl["item"], fl["message"]))
                elif fl["class"] == "rlimit":
                    undecided.append("rlimit on %s/%s: %s" % (r["unit"], fl["item"], fl["message"]))
                elif fl["class"] in owned_items[fl["item"]] or "all" in owned_items[fl["item"]] or fl["class"] == "hint":
                    failed.append(fl)
        r["lemma_fns"] = max(0, r["verified"] + r["errors"] - len([x for x in r["table"] if not x.get("sig_only")]))
    # vacuity: every contracted function of a must-fail twin must be rejected
    twins_generated = twins_rejected = twins_rlimit = 0
    for r in mf_results:
        rejected = set(fl["item"] for fl in r["failures"] if fl["item"] and "assertion failed" in fl["message"] and "assert(false)" in fl.get("text", ""))
        # a twin on which the solver runs out of resources has not proved `false` either: the guard only has to show that the
        # contradiction is NOT derivable, and an exhausted budget is the slow way of showing that (counted separately)
        by_rlimit = set(fl["item"] for fl in r["failures"] if fl["item"] and fl["class"] == "rlimit") - rejected
        rejected |= by_rlimit
        twins_rlimit += len(by_rlimit)
        for row in r["table"]:
            if row.get("sig_only"):
                continue
            if pid not in PROPS.owners(row.get("props") or ""):
                continue
            if row.get("notwin"):
                continue
            twins_generated += 1
            if row["item"] in rejected:
                twins_rejected += 1
            else:
                undecided.append("vacuity guard: `ensures false` twin of %s/%s was NOT rejected" % (r["unit"], row["item"]))
    for k in kani_res:
        obligations.append({"name": "kani/" + k["harness"], "backend": "kani", "classes": k.get("classes", ["functional", "panic"]),
                            "checks": k.get("checks", 0)})
        if k["status"] == "FAILED":
            owned = k.get("classes", ["functional", "panic"])
            hit = [c for c in k.get("failed_classes", ["functional"]) if c in owned]
            if hit:
                failed.append({"unit": "kani", "item": k["harness"], "class": "+".join(hit), "message": k.get("summary", "")[:400],
                               "rendered": k.get("failed_checks", "")[:3000], "line": 0, "text": "", "kani": k})
            else:
                log("note: harness %s fails only in classes %s, which property %s does not own" % (k["harness"], k.get("failed_classes"), pid))
        elif k["status"] != "SUCCESS":
            undecided.append("kani harness %s: %s" % (k["harness"], k["status"]))
        for s in k.get("stubs", []):
            trusted.add("kani stub " + s)
    n_obl = len(obligations) + sum(r["lemma_fns"] for r in results)
    # ---- verdict
    known = [k for k in load_known() if k.get("property") == pid and k.get("kind") == "finding"]
    printed_known = []
    violations = []
    import replay as REPLAY
    for k in known:
        ok, what = REPLAY.replay_known(k, REPO, WORK, ROOT)
        if ok:      # still fails on the real code
            log("KNOWN-FINDING: property=%s %s" % (pid, k["what"]))
            printed_known.append(k["what"])
        else:
            log("note: known finding no longer reproduces (%s): %s" % (what, k["what"]))
    nrep = 0
    MAX_REPLAYS, MAX_CE_SEARCHES = 12, 4
    reportable = [fl for fl in failed
                  # a failure inside the carve-out of a listed finding is not reported again
                  if not any(k.get("obligation") and fl.get("item") and k["obligation"] == fl["item"] for k in known)]
    # failed Kani harnesses first: they come with a counterexample from the verifier
    reportable.sort(key=lambda fl: 0 if fl.get("unit") == "kani" else 1)
    for fl in reportable[:MAX_REPLAYS]:
        nrep += 1
        ce = None
        if nrep <= MAX_CE_SEARCHES:
            try:
                ce = REPLAY.find_counterexample(pid, fl, REPO, WORK, ROOT, log)
            except Exception as e:  # counterexample search is best effort
                log("note: counterexample search failed: %r" % (e,))
        payload = {"property": pid, "obligation": "%s/%s" % (fl["unit"], fl["item"]), "class": fl["class"],
                   "verifier_message": fl["message"], "verifier_output": fl.get("rendered", ""),
                   "source_line": fl.get("text", ""), "tree": th, "counterexample": ce}
        if nrep == min(MAX_REPLAYS, len(reportable)) and len(reportable) > MAX_REPLAYS:
            payload["further_failed_obligations"] = ["%s/%s: %s" % (x["unit"], x["item"], x["message"][:120]) for x in reportable[MAX_REPLAYS:]]
        if nrep > MAX_CE_SEARCHES:
            payload["note"] = "counterexample search is run for the first %d failed obligations of a check only" % MAX_CE_SEARCHES
        path = write_replay(pid, nrep, payload)
        if ce and ce.get("confirmed"):
            violations.append("VIOLATION property=%s replay=%s" % (pid, path))
        elif ce and not ce.get("confirmed") and ce.get("from_verifier"):
            undecided.append("counterexample of %s did not reproduce on the real code (harness fault?)" % fl["item"])
        else:
            violations.append("VIOLATION property=%s replay=%s no-failing-input-found" % (pid, path))
    # assumed callee contracts of the units of this run, and the unit in which each is proved
    assumed = []
    try:
        proved_in = {}
        idx = get_index(expanded)
        for fn in sorted(os.listdir(os.path.join(ROOT, "units"))):
            if not fn.endswith(".rs.tmpl"):
                continue
            base = fn[:-8]
            fams = FAMILIES if "@ONE" in open(os.path.join(ROOT, "units", fn)).read() else [None]
            for fam in fams:
                with RENDER_LOCK:
                    _t, tab, _l = rxtract.render_unit(idx, os.path.join(ROOT, "units", fn), ROOT, params={"FAM": fam} if fam else None)
                for row in tab:
                    if not row.get("assumed") and not row.get("sig_only"):
                        proved_in.setdefault(row["item"], base)
        seen = set()
        for r in results:
            for row in r["table"]:
                if row.get("assumed") and row["item"] not in seen:
                    seen.add(row["item"])
                    assumed.append({"item": row["item"], "assumed_in": r["unit"].split("@")[0], "proved_in": proved_in.get(row["item"], "NOT PROVED BY ANY VERUS UNIT (see level_note)")})
    except Exception as e:   # informational only
        assumed = [{"error": repr(e)}]
    uncovered = None
    if spec.get("scan_uncovered"):
        uncovered = scan_uncovered(expanded, results)
    wall = time.time() - t0
    discharged = n_obl - len(set((f["unit"], f["item"]) for f in failed))
    # ---- evidence
    ev = {
        "property_id": pid, "tier": tier, "seed": seed, "level": spec["level"], "wall_s": round(wall, 1),
        "violations": len(violations),
        "coverage": {
            "obligations": n_obl, "discharged": max(discharged, 0),
            "checker_cmd": "; ".join(sorted(set([r["cmd"].replace(WORK, ".work") for r in results] + [k.get("cmd", "") for k in kani_res if k.get("cmd")]))) or "none",
            "trusted_base": sorted(trusted) + PROPS.COMMON_TRUST,
            "explanation": spec.get("explanation", ""),
            "repo_tree_sha": th,
            "by_backend": {
                "verus": {"units": [r["unit"] for r in results], "functions_verified": sum(r["verified"] for r in results),
                          "errors": sum(r["errors"] for r in results), "smt_s": round(sum(r["smt_s"] for r in results), 2),
                          "wall_s": round(sum(r["wall_s"] for r in results), 1)},
                "kani": {"harnesses": len(kani_res), "checks": sum(k.get("checks", 0) for k in kani_res),
                         "solve_s": round(sum(k.get("time_s", 0) for k in kani_res), 1)},
            },
            "functions_under_contract": fn_table,
            "must_fail_twins": {"generated": twins_generated, "rejected": twins_rejected, "of_which_by_exhausted_budget": twins_rlimit},
            "slowest": sorted([{"fn": f, "ms": v["ms"]} for r in results for f, v in r["funcs"].items()], key=lambda x: -x["ms"])[:5],
            "bounded_parts": spec.get("bounded_parts", []),
            "not_covered": spec.get("not_covered", []),
            "known_findings_printed": printed_known,
            "undecided": undecided,
            "samples": [o["name"] for o in obligations[:12]],
            "kani_harnesses": [{k2: k[k2] for k2 in ("harness", "status", "checks", "time_s") if k2 in k} for k in kani_res],
            "expansion_s": round(exp_s, 1),
            "public_fn_coverage": uncovered,
            "assumed_callee_contracts": {"count": len(assumed), "not_proved_anywhere": [a for a in assumed if str(a.get("proved_in", "")).startswith("NOT")][:40],
                                         "sample": assumed[:8]},
        },
        "assumptions": PROPS.COMMON_ASSUMPTIONS + spec.get("assumptions", []),
    }
    evdir = os.environ.get("VERIF_EVIDENCE_DIR", os.path.join(ROOT, "evidence"))
    os.makedirs(evdir, exist_ok=True)
    with open(os.path.join(evdir, pid + ".json"), "w") as f:
        json.dump(ev, f, indent=1)
    for o in obligations:
        bad = any(f["item"] == o["name"].split("/", 1)[1] for f in failed)
        log("OBLIGATION %s %s %s" % (o["name"], o["backend"], "FAILED" if bad else "discharged"))
    log("SUMMARY property=%s tier=%s obligations=%d discharged=%d must_fail_twins=%d/%d wall=%.1fs" % (
        pid, tier, n_obl, max(discharged, 0), twins_rejected, twins_generated, wall))
    for v in violations:
        log(v)
    if violations:
        return 1
    if undecided:
        for u in undecided:
            log("UNDECIDED property=%s reason=%s" % (pid, u))
        return 2
    if n_obl == 0:
        log("UNDECIDED property=%s reason=no obligations generated" % pid)
        return 2
    return 0


def main():
    args = sys.argv[1:]
    if not args:
        print(__doc__)
        return 2
    tier = os.environ.get("VERIF_TIER", "quick")
    if "--tier" in args:
        i = args.index("--tier")
        tier = args[i + 1]
        del args[i:i + 2]
    seed = int(os.environ.get("VERIF_SEED", "0") or 0)
    if args[0] == "replay":
        import replay as REPLAY
        return REPLAY.replay_file(args[1], REPO, WORK, ROOT)
    if args[0] == "all":
        rc = 0
        for pid in PROPS.PROPERTIES:
            rc = max(rc, check_property(pid, tier, seed))
        return rc
    pid = args[0]
    if pid not in PROPS.PROPERTIES:
        print("unknown or unclaimed property", pid)
        return 2
    try:
        return check_property(pid, tier, seed)
    except Undecided as e:
        log("UNDECIDED property=%s reason=%s" % (pid, e))
        return 2
    except Exception as e:   # a fault of the machinery is never an alarm
        import traceback
        traceback.print_exc()
        log("UNDECIDED property=%s reason=driver fault: %r" % (pid, e))
        return 2


if __name__ == "__main__":
    sys.exit(main())
