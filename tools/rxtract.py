#!/usr/bin/env python3
"""Mechanical extraction of real functions from the macro expansion of /repo.

The expansion (`cargo +nightly rustc --lib -- -Zunpretty=expanded`, dev profile, guard off) is
tokenised; items are addressed by (whitespace-normalised container header, fn name); function
bodies are copied token for token and only the fixed rewrite rules R1..R12 of DESIGN.md §3.1 are
applied.  Unit templates (units/*.rs.tmpl) carry the contracts; see `render_unit`.
"""
import hashlib
import re
import sys

# ------------------------------------------------------------------------------------------ lexer

class Tok:
    __slots__ = ("k", "s", "a", "b")

    def __init__(self, k, s, a, b):
        self.k, self.s, self.a, self.b = k, s, a, b

    def __repr__(self):
        return "%s:%r" % (self.k, self.s)


_ident_re = re.compile(r"[A-Za-z_][A-Za-z0-9_]*")
_num_re = re.compile(r"[0-9][0-9A-Za-z_]*(\.[0-9][0-9A-Za-z_]*)?")
_ws_re = re.compile(r"\s+")


def lex(text):
    """Return tokens (kinds: id, num, str, chr, life, p, doc) ; comments and whitespace dropped."""
    toks = []
    i, n = 0, len(text)
    while i < n:
        c = text[i]
        if c.isspace():
            m = _ws_re.match(text, i)
            i = m.end()
            continue
        if text.startswith("//", i):
            j = text.find("\n", i)
            if j < 0:
                j = n
            if text.startswith("///", i) or text.startswith("//!", i):
                toks.append(Tok("doc", text[i:j], i, j))
            i = j
            continue
        if text.startswith("/*", i):
            depth, j = 1, i + 2
            while j < n and depth:
                if text.startswith("/*", j):
                    depth += 1
                    j += 2
                elif text.startswith("*/", j):
                    depth -= 1
                    j += 2
                else:
                    j += 1
            i = j
            continue
        # raw strings / byte strings
        m = re.match(r'b?r(#*)"', text[i:i + 40])
        if m:
            hashes = m.group(1)
            end = text.find('"' + hashes, i + len(m.group(0)))
            j = end + 1 + len(hashes)
            toks.append(Tok("str", text[i:j], i, j))
            i = j
            continue
        if c == '"' or (c == 'b' and i + 1 < n and text[i + 1] == '"'):
            j = i + (2 if c == 'b' else 1)
            while text[j] != '"':
                j += 2 if text[j] == "\\" else 1
            j += 1
            toks.append(Tok("str", text[i:j], i, j))
            i = j
            continue
        if c == "'" or (c == 'b' and i + 1 < n and text[i + 1] == "'"):
            s = i + (1 if c == 'b' else 0)
            # char literal or lifetime
            if text[s + 1] == "\\":
                j = s + 2
                while text[j] != "'":
                    j += 1
                j += 1
                toks.append(Tok("chr", text[i:j], i, j))
                i = j
                continue
            if s + 2 < n and text[s + 2] == "'":
                j = s + 3
                toks.append(Tok("chr", text[i:j], i, j))
                i = j
                continue
            m = _ident_re.match(text, s + 1)
            if m:
                toks.append(Tok("life", text[i:m.end()], i, m.end()))
                i = m.end()
                continue
            # multi-byte char literal
            j = text.find("'", s + 1) + 1
            toks.append(Tok("chr", text[i:j], i, j))
            i = j
            continue
        m = _ident_re.match(text, i)
        if m:
            toks.append(Tok("id", m.group(0), i, m.end()))
            i = m.end()
            continue
        m = _num_re.match(text, i)
        if m:
            toks.append(Tok("num", m.group(0), i, m.end()))
            i = m.end()
            continue
        for p in ("<<=", ">>=", "...", "..=", "::", "->", "=>", "==", "!=", "<=", ">=", "&&", "||",
                  "+=", "-=", "*=", "/=", "%=", "^=", "&=", "|=", "<<", ">>", ".."):
            if text.startswith(p, i):
                # `>>`/`<<` etc. inside generics are handled by the angle matcher splitting them
                toks.append(Tok("p", p, i, i + len(p)))
                i += len(p)
                break
        else:
            toks.append(Tok("p", c, i, i + 1))
            i += 1
    return toks


OPEN = {"(": ")", "[": "]", "{": "}"}
CLOSE = {")", "]", "}"}


def match_close(toks, i):
    """toks[i] is an opening bracket; return index of the matching closer."""
    depth = 0
    j = i
    while j < len(toks):
        s = toks[j].s
        if toks[j].k == "p":
            if s in OPEN:
                depth += 1
            elif s in CLOSE:
                depth -= 1
                if depth == 0:
                    return j
        j += 1
    raise ValueError("unbalanced bracket at token %d" % i)


def norm(s):
    """Whitespace-normalised text of a header, for anchor comparison."""
    return " ".join(t.s for t in lex(s))


def join(toks):
    """Re-emit tokens with single spaces (used only for small header fragments)."""
    return " ".join(t.s for t in toks)


# ------------------------------------------------------------------------------------------ index

class Item:
    def __init__(self, kind, header, name, t0, tb, t1, parent):
        self.kind, self.header, self.name = kind, header, name
        self.t0, self.tb, self.t1 = t0, tb, t1      # first token, body-open token, body-close token
        self.parent = parent
        self.children = []


class Index:
    """Items of the expansion: modules, impls, traits, fns, structs; macro_rules bodies skipped."""

    def __init__(self, text):
        self.text = text
        self.toks = lex(text)
        self.root = Item("mod", "crate", "crate", 0, -1, len(self.toks), None)
        self._scan(self.root, 0, len(self.toks))

    def _scan(self, parent, lo, hi):
        toks = self.toks
        i = lo
        while i < hi:
            t = toks[i]
            if t.k == "id" and t.s == "macro_rules" and toks[i + 1].s == "!":
                j = i + 3
                while toks[j].s not in OPEN:
                    j += 1
                i = match_close(toks, j) + 1
                continue
            if t.k == "p" and t.s == "#" and toks[i + 1].s in ("[", "!"):
                j = i + 1
                if toks[j].s == "!":
                    j += 1
                i = match_close(toks, j) + 1
                continue
            if t.k == "id" and t.s == "const" and i + 2 < hi and toks[i + 1].k == "id" and toks[i + 2].s == ":":
                # associated / module const: `const NAME: T = init;`
                j = i + 1
                depth = 0
                while j < hi:
                    sj = toks[j].s
                    if toks[j].k == "p":
                        if sj in OPEN:
                            depth += 1
                        elif sj in CLOSE:
                            depth -= 1
                        elif sj == ";" and depth == 0:
                            break
                    j += 1
                start = i
                while start > lo and (toks[start - 1].s == "pub" or (toks[start - 1].s == ")" and self._is_pub_paren(start - 1))):
                    start = start - 1 if toks[start - 1].s == "pub" else self._open_of(start - 1) - 1
                parent.children.append(Item("const", join(toks[i:i + 2]), toks[i + 1].s, start, -1, j, parent))
                if toks[i + 1].s == "_":
                    # `const _: () = { impl ... };` (derive output): the items inside belong to the enclosing scope
                    e = i + 2
                    while e < j and toks[e].s != "=":
                        e += 1
                    if e + 1 < j and toks[e + 1].s == "{":
                        self._scan(parent, e + 2, match_close(toks, e + 1))
                i = j + 1
                continue
            if t.k == "id" and t.s in ("mod", "impl", "trait", "fn", "struct", "enum", "union"):
                # an `unsafe impl` / `pub(crate) fn` prefix belongs to the item; find it backwards
                start = i
                while start > lo and (toks[start - 1].s in ("pub", "unsafe", "const", "async", "default", "extern")
                                      or toks[start - 1].k == "str"
                                      or (toks[start - 1].s == ")" and self._is_pub_paren(start - 1))):
                    if toks[start - 1].s == ")":
                        start = self._open_of(start - 1) - 1
                    else:
                        start -= 1
                # header runs to the first `{` or `;` at bracket depth 0
                j = i + 1
                depth = 0
                while j < hi:
                    s = toks[j].s
                    if toks[j].k == "p":
                        if s in ("(", "["):
                            depth += 1
                        elif s in (")", "]"):
                            depth -= 1
                        elif depth == 0 and s in ("{", ";"):
                            break
                    j += 1
                if j >= hi:
                    break
                name = toks[i + 1].s if toks[i + 1].k == "id" else ""
                header = join(toks[i:j])
                if toks[j].s == ";":
                    it = Item(t.s, header, name, start, -1, j, parent)
                    parent.children.append(it)
                    i = j + 1
                    continue
                k = match_close(toks, j)
                it = Item(t.s, header, name, start, j, k, parent)
                parent.children.append(it)
                if t.s in ("mod", "impl", "trait"):
                    self._scan(it, j + 1, k)
                i = k + 1
                continue
            if t.k == "p" and t.s in OPEN:
                # a const initialiser / static etc.: skip the bracket group
                i = match_close(toks, i) + 1
                continue
            i += 1

    def _is_pub_paren(self, j):
        o = self._open_of(j)
        return o > 0 and self.toks[o - 1].s == "pub"

    def _open_of(self, j):
        depth = 0
        while j >= 0:
            s = self.toks[j].s
            if self.toks[j].k == "p":
                if s in CLOSE:
                    depth += 1
                elif s in OPEN:
                    depth -= 1
                    if depth == 0:
                        return j
            j -= 1
        raise ValueError("unbalanced")

    def containers(self, anchor):
        want = norm(anchor)
        out = []
        if want == "crate":
            return [self.root]

        def walk(it):
            for c in it.children:
                if c.kind in ("mod", "impl", "trait"):
                    if c.header == want:
                        out.append(c)
                    walk(c)
        walk(self.root)
        return out

    def find_fn(self, anchor, name, nth=None):
        cands = []
        for c in self.containers(anchor):
            for f in c.children:
                if f.kind == "fn" and f.name == name:
                    cands.append(f)
        if not cands:
            raise KeyError("anchor not found: %s :: fn %s" % (anchor, name))
        if nth is not None:
            return cands[nth]
        if len(cands) > 1:
            raise KeyError("ambiguous anchor: %s :: fn %s (%d matches)" % (anchor, name, len(cands)))
        return cands[0]

    def find_item(self, anchor, kind, name):
        for c in self.containers(anchor):
            for f in c.children:
                if f.kind == kind and f.name == name:
                    return f
        raise KeyError("anchor not found: %s :: %s %s" % (anchor, kind, name))

    def src(self, t0, t1):
        """Original text from token t0 to token t1 inclusive."""
        return self.text[self.toks[t0].a:self.toks[t1].b]

    def line_of(self, t):
        return self.text.count("\n", 0, self.toks[t].a) + 1


# --------------------------------------------------------------------------------- rewrite rules

class Rules:
    def __init__(self):
        self.fired = set()


FRAC_CONSTS = ("FRAC_NBITS", "INT_NBITS", "INT_MASK", "FRAC_MASK", "INT_LSB", "FRAC_MSB")


def rewrite_tokens(toks, rules, opts):
    """Apply R1, R2, R3, R4(use sites), R12 to a token list; returns list of strings."""
    out = []
    i, n = 0, len(toks)
    rename_int = opts.get("rename_int", True)
    while i < n:
        t = toks[i]
        # R1 attributes and doc comments
        if t.k == "doc":
            rules.fired.add("R1")
            i += 1
            continue
        if t.k == "p" and t.s == "#" and i + 1 < n and toks[i + 1].s == "[":
            j = match_close(toks, i + 1)
            rules.fired.add("R1")
            i = j + 1
            continue
        # R2 panics:  ::core::panicking::xxx(...)   /  core::panicking::xxx(...)
        if t.k == "id" and t.s == "panicking" and i >= 2 and toks[i - 1].s == "::" and toks[i - 2].s == "core":
            # remove already emitted `:: core ::` prefix
            while out and out[-1] in ("::", "core"):
                out.pop()
            j = i + 1
            while toks[j].s != "(":
                j += 1
            k = match_close(toks, j)
            out.append("vpanic()")
            rules.fired.add("R2")
            i = k + 1
            continue
        # R3 local const -> let   (only inside fn bodies: opts['in_body'])
        if opts.get("in_body") and t.k == "id" and t.s == "const" and i + 2 < n and toks[i + 1].k == "id" and toks[i + 2].s == ":":
            out.append("let")
            rules.fired.add("R3")
            i += 1
            continue
        # R4 use sites: Self::INT_MASK  -> Self::INT_MASK()
        if opts.get("frac_consts") and t.k == "id" and t.s in FRAC_CONSTS and i >= 1 and toks[i - 1].s == "::" \
                and not (i + 1 < n and toks[i + 1].s == "("):
            out.append(t.s + "()")
            rules.fired.add("R4")
            i += 1
            continue
        # R12 local variable named int / nat
        if rename_int and t.k == "id" and t.s in ("int", "nat"):
            prev = toks[i - 1].s if i else ""
            nxt = toks[i + 1].s if i + 1 < n else ""
            if prev not in (".", "fn", "as", ":", "->", "::", "<") and nxt not in ("(", "::"):
                out.append(t.s + "_v")
                rules.fired.add("R12")
                i += 1
                continue
        out.append(t.s)
        i += 1
    return out


def emit(strs):
    """Join token strings into compilable text: space separated, newline after ; { }."""
    out = []
    line = []
    for s in strs:
        line.append(s)
        if s in (";", "{", "}"):
            out.append(" ".join(line))
            line = []
    if line:
        out.append(" ".join(line))
    return "\n".join(out)


# ------------------------------------------------------------------------------------- templates

class ExtractError(Exception):
    pass


def split_sig(toks):
    """toks: tokens of `fn name<..>(..) -> Ret where ..` (without qualifiers and body).
    returns (head_toks up to and incl. param close paren, ret_toks or None, where_toks)"""
    # find param list: first `(` at angle depth 0 after name
    i = 2
    ang = 0
    while i < len(toks):
        s = toks[i].s
        if s == "<":
            ang += 1
        elif s == ">":
            ang -= 1
        elif s == ">>":
            ang -= 2
        elif s == "->" and ang > 0:
            pass
        elif s == "(" and ang == 0:
            break
        i += 1
    k = match_close(toks, i)
    head = toks[:k + 1]
    rest = toks[k + 1:]
    ret, where = None, []
    if rest and rest[0].s == "->":
        j = 1
        depth = 0
        while j < len(rest):
            s = rest[j].s
            if s in ("(", "[", "<"):
                depth += 1
            elif s in (")", "]", ">"):
                depth -= 1
            elif s == ">>":
                depth -= 2
            elif s == "where" and depth == 0:
                break
            j += 1
        ret = rest[1:j]
        where = rest[j:]
    else:
        where = rest
    return head, ret, where


def find_loops(toks):
    """indices (into toks) of the body-open brace of each loop, in token order."""
    res = []
    i = 0
    n = len(toks)
    while i < n:
        t = toks[i]
        if t.k == "id" and t.s in ("while", "for", "loop"):
            if t.s == "for" and i + 1 < n and toks[i + 1].s == "<":   # for<'a> bound
                i += 1
                continue
            j = i + 1
            depth = 0
            while j < n:
                s = toks[j].s
                if toks[j].k == "p":
                    if s in ("(", "["):
                        depth += 1
                    elif s in (")", "]"):
                        depth -= 1
                    elif s == "{" and depth == 0:
                        break
                j += 1
            res.append(j)
        i += 1
    return res


def desugar_zip_index(body, rules):
    """R18: `for ( A , I ) in X . iter ( ) . cloned ( ) . zip ( 0 .. ) { B }` (X a path) is rendered
    `let mut I = 0 ; for __zk in 0 .. X . len ( ) { let A = X [ __zk ] ; B I += 1 ; }`: the zipped iterator yields
    (X[k], k) for k = 0 .. X.len(), the body is copied token for token (Verus rejects the iterator adapters)."""
    out = list(body)
    i = 0
    while i < len(out):
        if out[i].k == "id" and out[i].s == "for" and i + 6 < len(out) and out[i + 1].s == "(" and out[i + 3].s == "," and out[i + 5].s == ")" \
                and out[i + 6].s == "in" and out[i + 2].k == "id" and out[i + 4].k == "id":
            a_name, i_name = out[i + 2].s, out[i + 4].s
            j = i + 7
            path = []
            while j < len(out) and (out[j].k == "id" or out[j].s == "::") and out[j].s != "iter":
                path.append(out[j])
                j += 1
            tail = [x.s for x in out[j:j + 15]]
            want = [".", "iter", "(", ")", ".", "cloned", "(", ")", ".", "zip", "(", "0", "..", ")", "{"]
            if path and path[-1].s != "." and tail == want:
                bopen = j + 14
                bclose = match_close(out, bopen)
                def T(k, s_):
                    return Tok(k, s_, out[i].a, out[i].b)
                pre = [T("id", "let"), T("id", "mut"), T("id", i_name), T("p", "="), T("num", "0"), T("p", ";"),
                       T("id", "for"), T("id", "__zk"), T("id", "in"), T("num", "0"), T("p", "..")] + path + \
                      [T("p", "."), T("id", "len"), T("p", "("), T("p", ")"), T("p", "{"),
                       T("id", "let"), T("id", a_name), T("p", "=")] + path + [T("p", "["), T("id", "__zk"), T("p", "]"), T("p", ";")]
                post = [T("id", i_name), T("p", "+="), T("num", "1"), T("p", ";")]
                out = out[:i] + pre + out[bopen + 1:bclose] + post + out[bclose:]
                rules.fired.add("R18")
                i += len(pre)
                continue
        i += 1
    return out


def desugar_enumerate(body, rules):
    """R21: `for ( I , & X ) in E . iter ( ) . enumerate ( ) { B }` (E an identifier naming a slice) ->
    `let mut __ek = 0 ; while __ek < E . len ( ) { let I = __ek ; let X = E [ __ek ] ; __ek += 1 ; B }`:
    enumerate yields (k, &E[k]) for k = 0 .. len; the counter is advanced before B so that `continue` in B behaves as in the
    original (Verus rejects the adapter, and `continue` in a `for`)."""
    out = list(body)
    i = 0
    n_done = 0
    while i < len(out):
        tail = [x.s for x in out[i:i + 17]]
        if len(tail) == 17 and tail[0] == "for" and tail[1] == "(" and tail[3] == "," and tail[4] == "&" and tail[6] == ")" and tail[7] == "in" \
                and tail[9:] == [".", "iter", "(", ")", ".", "enumerate", "(", ")"] and out[i + 2].k == "id" and out[i + 5].k == "id" and out[i + 8].k == "id" \
                and i + 17 < len(out) and out[i + 17].s == "{":
            idx_n, x, e = out[i + 2].s, out[i + 5].s, out[i + 8].s
            ek = "__ek%d" % n_done
            def T(kk, s_):
                return Tok(kk, s_, out[i].a, out[i].b)
            rep = [T("id", "let"), T("id", "mut"), T("id", ek), T("p", "="), T("num", "0"), T("p", ";"),
                   T("id", "while"), T("id", ek), T("p", "<"), T("id", e), T("p", "."), T("id", "len"), T("p", "("), T("p", ")"), T("p", "{"),
                   T("id", "let"), T("id", idx_n), T("p", "="), T("id", ek), T("p", ";"),
                   T("id", "let"), T("id", x), T("p", "="), T("id", e), T("p", "["), T("id", ek), T("p", "]"), T("p", ";"),
                   T("id", ek), T("p", "+="), T("num", "1"), T("p", ";")]
            out = out[:i] + rep + out[i + 18:]
            rules.fired.add("R21")
            n_done += 1
            i += len(rep)
            continue
        i += 1
    return out


def desugar_ref_pattern_for(body, rules):
    """R20: `for & X in E {` -> `for X__r in __it<k> : ( E ) . iter ( ) { let X = * X__r ;` (E a slice expression without braces):
    the by-reference pattern binds X to a copy of each element, which is what the inserted `let` does; the label gives loop
    invariants access to the iterator position (Verus rejects reference patterns)."""
    out = list(body)
    i = 0
    k = 0
    while i < len(out):
        if out[i].k == "id" and out[i].s == "for" and i + 4 < len(out) and out[i + 1].s == "&" and out[i + 2].k == "id" and out[i + 3].s == "in":
            j = i + 4
            depth = 0
            ok = True
            while j < len(out):
                sj = out[j].s
                if out[j].k == "p":
                    if sj in ("(", "["):
                        depth += 1
                    elif sj in (")", "]"):
                        depth -= 1
                    elif sj == "{" and depth == 0:
                        break
                    elif sj in (";", "}"):
                        ok = False
                        break
                j += 1
            if ok and j < len(out) and j > i + 4:
                x = out[i + 2].s
                expr = out[i + 4:j]
                def T(kk, s_):
                    return Tok(kk, s_, out[i].a, out[i].b)
                rep = [T("id", "for"), T("id", x + "__r"), T("id", "in"), T("id", "__it%d" % k), T("p", ":"), T("p", "(")] + expr + \
                      [T("p", ")"), T("p", "."), T("id", "iter"), T("p", "("), T("p", ")"), T("p", "{"),
                       T("id", "let"), T("id", x), T("p", "="), T("p", "*"), T("id", x + "__r"), T("p", ";")]
                out = out[:i] + rep + out[j + 1:]
                rules.fired.add("R20")
                k += 1
                i += len(rep)
                continue
        i += 1
    return out


def desugar_iter_mut(body, rules):
    """R22: a `for` loop over the elements of a slice by reference, whose variable is only ever used dereferenced (`*b`):
         for b in E . iter_mut ( ) {B}                ->  let __sK = E' ; let mut __ikK : usize = 0 ; while __ikK < __sK . len ( ) { let __jK = __ikK ; __ikK += 1 ; B[*b := __sK[__jK]] }
         for ( i , b ) in E . iter_mut ( ) . enumerate ( ) {B}  ->  the same with `let i = __jK ;` in front of B
         for b in E . iter_mut ( ) . rev ( ) {B}      ->  let __sK = E' ; let mut __ikK : usize = __sK . len ( ) ; while __ikK > 0 { __ikK -= 1 ; B[*b := __sK[__ikK]] }
         for b in E . iter ( ) . rev ( ) {B}          ->  as the previous line (read-only)
       E' is E when E is a call returning the slice reference (`buf . int ( )`) and `& mut E` when E is an index expression
       (`self . data [ 0 .. len ]`; `iter_mut` auto-borrows).  The iterator yields a reference to each element in index order
       (reverse order for `.rev()`), `*b` is that element; the counter is advanced before B so that `continue` / `break` in B behave
       as in the original.  B is copied token for token apart from `* b`.  Anything that does not match this exact shape (e.g. `b`
       used without `*`) is left alone and does not compile under Verus (exit 2)."""
    out = list(body)
    i = 0
    kdone = 0
    while i < len(out):
        if not (out[i].k == "id" and out[i].s == "for"):
            i += 1
            continue
        # pattern
        idx_n = None
        if i + 2 < len(out) and out[i + 1].k == "id" and out[i + 2].s == "in":
            var = out[i + 1].s
            j = i + 3
        elif i + 6 < len(out) and out[i + 1].s == "(" and out[i + 2].k == "id" and out[i + 3].s == "," and out[i + 4].k == "id" \
                and out[i + 5].s == ")" and out[i + 6].s == "in":
            idx_n, var = out[i + 2].s, out[i + 4].s
            j = i + 7
        else:
            i += 1
            continue
        # header up to the body-open brace
        depth = 0
        k = j
        ok = True
        while k < len(out):
            sk = out[k].s
            if out[k].k == "p":
                if sk in ("(", "["):
                    depth += 1
                elif sk in (")", "]"):
                    depth -= 1
                elif sk == "{" and depth == 0:
                    break
                elif sk in (";", "}"):
                    ok = False
                    break
            k += 1
        if not ok or k >= len(out):
            i += 1
            continue
        hdr = [x.s for x in out[j:k]]
        mode = None
        for suffix, m in (([".", "iter_mut", "(", ")", ".", "enumerate", "(", ")"], "enum"), ([".", "iter_mut", "(", ")", ".", "rev", "(", ")"], "rev"),
                          ([".", "iter", "(", ")", ".", "rev", "(", ")"], "revro"), ([".", "iter_mut", "(", ")"], "fwd")):
            if len(hdr) > len(suffix) and hdr[-len(suffix):] == suffix:
                mode = m
                expr = out[j:k - len(suffix)]
                break
        if mode is None or (mode == "enum") != (idx_n is not None):
            i += 1
            continue
        bopen = k
        bclose = match_close(out, bopen)
        inner = out[bopen + 1:bclose]
        # every use of the loop variable must be a dereference `* var`
        uses_ok = True
        for q, t in enumerate(inner):
            if t.k == "id" and t.s == var:
                prev = inner[q - 1] if q else None
                pprev = inner[q - 2] if q > 1 else None
                if not (prev is not None and prev.s == "*" and not (pprev is not None and (pprev.k in ("id", "num") and pprev.s not in ("if", "return", "in", "else", "match", "while") or pprev.s in (")", "]")))):
                    uses_ok = False
        if not uses_ok:
            i += 1
            continue
        sk_, ik_, jk_ = "__s%d" % kdone, "__ik%d" % kdone, "__j%d" % kdone
        def T(kk, s_):
            return Tok(kk, s_, out[i].a, out[i].b)
        rev = mode in ("rev", "revro")
        idx_tok = ik_ if rev else jk_
        pre = [T("id", "let"), T("id", sk_), T("p", "=")]
        if expr and expr[-1].s == "]":
            pre += [T("p", "&")] + ([] if mode == "revro" else [T("id", "mut")])
        pre += list(expr) + [T("p", ";"), T("id", "let"), T("id", "mut"), T("id", ik_), T("p", ":"), T("id", "usize"), T("p", "=")]
        if rev:
            pre += [T("id", sk_), T("p", "."), T("id", "len"), T("p", "("), T("p", ")"), T("p", ";"),
                    T("id", "while"), T("id", ik_), T("p", ">"), T("num", "0"), T("p", "{"),
                    T("id", ik_), T("p", "-="), T("num", "1"), T("p", ";")]
        else:
            pre += [T("num", "0"), T("p", ";"),
                    T("id", "while"), T("id", ik_), T("p", "<"), T("id", sk_), T("p", "."), T("id", "len"), T("p", "("), T("p", ")"), T("p", "{"),
                    T("id", "let"), T("id", jk_), T("p", "="), T("id", ik_), T("p", ";"), T("id", ik_), T("p", "+="), T("num", "1"), T("p", ";")]
            if idx_n:
                pre += [T("id", "let"), T("id", idx_n), T("p", "="), T("id", jk_), T("p", ";")]
        new_inner = []
        q = 0
        while q < len(inner):
            if inner[q].s == "*" and q + 1 < len(inner) and inner[q + 1].k == "id" and inner[q + 1].s == var:
                new_inner += [T("id", sk_), T("p", "["), T("id", idx_tok), T("p", "]")]
                q += 2
                continue
            new_inner.append(inner[q])
            q += 1
        out = out[:i] + pre + new_inner + out[bclose:]
        rules.fired.add("R22")
        kdone += 1
        i += len(pre)
    return out


def desugar_closure_pattern(body, rules, specs):
    """R24: a closure whose single parameter is a tuple pattern, `| ( a , b ) | E` in argument position, becomes
    `| __cpK | [-> ( __cqK : T ) ensures P] { let ( a , b ) = __cpK ; E }` - the language's own desugaring of a pattern parameter
    (Verus accepts only identifier parameters of closures).  `E` is copied token for token.  The return type and the `ensures`
    clause are ghost annotations taken from the `closure K <type> ensures <expr>` directive (`__p` / `__q` name the parameter
    and the result)."""
    out = list(body)
    i = 0
    k = 0
    while i < len(out):
        t = out[i]
        if t.s == "||" and i > 0 and out[i - 1].s in ("(", ",") and i + 1 < len(out) and out[i + 1].s == "{" and k in specs:
            # a zero-argument closure `|| { B }` in argument position: ghost annotations only (return type, ensures, proof prefix); `B` is unchanged
            b1 = match_close(out, i + 1)
            ty, ens = specs[k]
            ens, _, prf = ens.partition(" :: ")
            res = "__cq%d" % k
            new = [Tok("p", "||", t.a, t.a), Tok("raw", " -> ( %s : %s ) ensures %s" % (res, ty, ens.replace("__q", res)), t.a, t.a), Tok("p", "{", t.a, t.a)]
            if prf.strip():
                new.append(Tok("raw", "proof { %s }" % prf.strip(), t.a, t.a))
            new += out[i + 2:b1] + [Tok("p", "}", t.a, t.a)]
            out = out[:i] + new + out[b1 + 1:]
            rules.fired.add("R9")
            k += 1
            i += len(new)
            continue
        ident_closure = (t.s == "|" and i > 0 and out[i - 1].s in ("(", ",") and i + 2 < len(out) and out[i + 1].k == "id"
                         and out[i + 2].s == "|" and k in specs)
        if ident_closure or (t.s == "|" and i > 0 and out[i - 1].s in ("(", ",") and i + 1 < len(out) and out[i + 1].s == "("):
            close = i + 1 if ident_closure else match_close(out, i + 1)
            if close + 1 < len(out) and out[close + 1].s == "|":
                pat = out[i + 1:close + 1]
                # the closure body: a block, or an expression up to the closing parenthesis / comma of the enclosing call
                b0 = close + 2
                if out[b0].s == "{":
                    b1 = match_close(out, b0) + 1
                else:
                    d, b1 = 0, b0
                    while b1 < len(out):
                        x = out[b1].s
                        if x in OPEN:
                            d += 1
                        elif x in CLOSE:
                            if d == 0:
                                break
                            d -= 1
                        elif x == "," and d == 0:
                            break
                        b1 += 1
                expr = out[b0:b1]
                name, res = "__cp%d" % k, "__cq%d" % k
                if ident_closure:
                    name = pat[0].s      # an identifier parameter keeps its name: only ghost annotations are added (no R24)
                ann, prf = "", ""
                if k in specs:
                    ty, ens = specs[k]
                    ens, _, prf = ens.partition(" :: ")
                    ann = " -> ( %s : %s ) ensures %s" % (res, ty, ens.replace("__p", name).replace("__q", res))
                new = [Tok("p", "|", t.a, t.a), Tok("id", name, t.a, t.a), Tok("p", "|", t.a, t.a)]
                if ann:
                    new.append(Tok("raw", ann, t.a, t.a))
                new.append(Tok("p", "{", t.a, t.a))
                if prf.strip():
                    new.append(Tok("raw", "proof { %s }" % prf.replace("__p", name).strip(), t.a, t.a))
                if not ident_closure:
                    new += [Tok("id", "let", t.a, t.a)] + pat + [Tok("p", "=", t.a, t.a), Tok("id", name, t.a, t.a), Tok("p", ";", t.a, t.a)]
                    rules.fired.add("R24")
                else:
                    rules.fired.add("R9")
                new += expr + [Tok("p", "}", t.a, t.a)]
                out = out[:i] + new + out[b1:]
                k += 1
                i += len(new)
                continue
        i += 1
    return out


def drop_unused_rev(body, rules):
    """R16: `for _x in ( <lo> .. <hi> ) . rev ( ) {` -> `for _x in <lo> .. <hi> {` when the loop variable starts with `_`
    and does not occur in the loop body: the reversed range yields the same number of values and nothing observes their
    order, so the loop runs the same body the same number of times (Verus rejects the `.rev()` adapter)."""
    out = list(body)
    i = 0
    while i < len(out):
        t = out[i]
        if t.k == "id" and t.s == "for" and i + 3 < len(out) and out[i + 1].k == "id" and out[i + 1].s.startswith("_") \
                and out[i + 2].s == "in" and out[i + 3].s == "(":
            close = match_close(out, i + 3)
            tail = [x.s for x in out[close + 1:close + 6]]
            inner = out[i + 4:close]
            if tail == [".", "rev", "(", ")", "{"] and ".." in [x.s for x in inner]:
                bopen = close + 5
                bclose = match_close(out, bopen)
                var = out[i + 1].s
                if not any(x.k == "id" and x.s == var for x in out[bopen:bclose]):
                    out = out[:i + 3] + inner + out[bopen:]
                    rules.fired.add("R16")
        i += 1
    return out


def sha(s):
    return hashlib.sha256(s.encode()).hexdigest()[:16]


class FnSpec:
    def __init__(self):
        self.anchor = self.name = None
        self.newname = None
        self.ret = "r"
        self.nth = None
        self.requires = []
        self.ensures = []
        self.head = ""
        self.loops = {}
        self.loopbodies = {}
        self.afterloops = {}
        self.closures = {}
        self.ticks = None
        self.boolor = []
        self.after = []
        self.props = None
        self.decreases = None
        self.quals = None
        self.sig_only = False
        self.assume = False
        self.notwin = False
        self.twin_wrap = False
        self.selfty = None
        self.extra = {}


def parse_fn_directive(lines, defaults):
    """lines: directive lines without the leading //@ ; first is `fn <anchor> :: <name> [opts]`."""
    fs = FnSpec()
    first = lines[0].strip()
    m = re.match(r"fn\s+(.*?)\s*::\s*([A-Za-z_0-9]+)\s*(.*)$", first)
    if not m:
        raise ExtractError("bad fn directive: " + first)
    fs.anchor, fs.name, opts = m.group(1), m.group(2), m.group(3)
    for o in opts.split():
        if "=" in o:
            k, v = o.split("=", 1)
            if k == "as":
                fs.newname = v
            elif k == "ret":
                fs.ret = v
            elif k == "nth":
                fs.nth = int(v)
            elif k == "self":
                fs.selfty = v
            else:
                fs.extra[k] = v
        elif o == "sig":
            fs.sig_only = True
        elif o == "assume":
            fs.assume = True
        elif o == "notwin":
            fs.notwin = True
        elif o == "nopub":
            fs.quals = ""
    fs.props = defaults.get("props")
    cur = None
    buf = []

    def flush():
        nonlocal cur, buf
        if cur is None:
            return
        txt = "\n".join(buf).strip()
        if cur == "requires":
            fs.requires.append(txt)
        elif cur == "ensures":
            fs.ensures.append(txt)
        elif cur == "decreases":
            fs.decreases = txt
        elif cur == "head":
            fs.head += txt + "\n"
        elif cur.startswith("closure"):
            ty, _, ens = txt.partition(" ensures ")
            fs.closures[int(cur.split()[1])] = (ty.strip(), ens.strip())
        elif cur.startswith("afterloop"):
            fs.afterloops[int(cur.split()[1])] = txt
        elif cur.startswith("loopbody"):
            fs.loopbodies[int(cur.split()[1])] = txt
        elif cur.startswith("loop"):
            fs.loops[int(cur.split()[1])] = txt
        elif cur.startswith("before"):
            m2 = re.match(r'before\s+"(.*?)"(?:\s+(\d+))?', cur)
            fs.after.append((m2.group(1), int(m2.group(2) or 0), "BEFORE " + txt))
        elif cur.startswith("after"):
            m2 = re.match(r'after\s+"(.*?)"(?:\s+(\d+))?', cur)
            fs.after.append((m2.group(1), int(m2.group(2) or 0), txt))
        elif cur == "props":
            fs.props = txt
        elif cur == "ticks":
            fs.ticks = txt.strip()
        elif cur == "boolor":
            fs.boolor.append(txt.strip())
        cur, buf = None, []

    for ln in lines[1:]:
        s = ln.strip()
        m = re.match(r'(requires|ensures|decreases|head|props|ticks|boolor|closure\s+\d+|afterloop\s+\d+|loopbody\s+\d+|loop\s+\d+|before\s+"[^"]*"(?:\s+\d+)?|after\s+"[^"]*"(?:\s+\d+)?)(?=\s|$)\s*(.*)$', s)
        if m and (cur is None or not ln.startswith("    ")):
            flush()
            cur = m.group(1)
            buf = [m.group(2)]
        else:
            buf.append(ln)
    flush()
    return fs


def render_fn(idx, fs, table, ctx):
    """Produce the Verus text of one real function with its contract spliced in."""
    it = idx.find_fn(fs.anchor, fs.name, fs.nth)
    toks = idx.toks
    orig = idx.src(it.t0, it.t1)
    rules = Rules()
    # qualifiers
    q = []
    j = it.t0
    while toks[j].s != "fn":
        q.append(toks[j])
        j += 1
    fn_i = j
    quals = [t.s for t in q if t.s not in ("const",)]
    if any(t.s == "const" for t in q):
        rules.fired.add("R1")
    sig = toks[fn_i:(it.tb if it.tb >= 0 else it.t1)]
    head, ret, where = split_sig(sig)
    opts = {"frac_consts": ctx.get("frac_consts", False), "rename_int": True}
    head_s = rewrite_tokens(head, rules, opts)
    # R17: a tuple-pattern parameter `(a, b): T` becomes `__arg<k>: T` with `let (a, b) = __arg<k>;` as the first statement of
    # the body (Verus accepts only identifier parameters; this is the language's own desugaring of pattern parameters)
    param_lets = []
    try:
        po = head_s.index("(")
        k = po + 1
        depth = 0
        start_of_param = True
        while k < len(head_s):
            x = head_s[k]
            if start_of_param and x == "(":
                d2, e = 0, k
                while e < len(head_s):
                    if head_s[e] in ("(", "["):
                        d2 += 1
                    elif head_s[e] in (")", "]"):
                        d2 -= 1
                        if d2 == 0:
                            break
                    e += 1
                if e + 1 < len(head_s) and head_s[e + 1] == ":":
                    name = "__arg%d" % len(param_lets)
                    param_lets.append("let %s = %s ;" % (" ".join(head_s[k:e + 1]), name))
                    head_s[k:e + 1] = [name]
                    rules.fired.add("R17")
            start_of_param = False
            if x in ("(", "[", "<"):
                depth += 1
            elif x in (")", "]", ">"):
                if depth == 0:
                    break
                depth -= 1
            elif x == "," and depth == 0:
                start_of_param = True
            k += 1
    except ValueError:
        pass
    # R23: a `mut self` parameter becomes `self` with `let mut self_m = self;` as the first statement and every `self` of the body
    # renamed to `self_m` (a `mut` binding of a by-value parameter is a local mutable copy; Verus rejects `mut self`)
    mut_self = False
    for k in range(len(head_s) - 1):
        if head_s[k] == "mut" and head_s[k + 1] == "self" and head_s[k - 1] in ("(", ","):
            del head_s[k]
            mut_self = True
            param_lets.append("let mut self_m = self ;")
            rules.fired.add("R23")
            break
    if fs.newname:
        head_s[1] = fs.newname
    if fs.selfty:
        # R11: re-home a foreign-trait method as a free function
        head_s = [fs.selfty if s == "Self" else s for s in head_s]
        if fs.extra.get("gen"):
            # the impl's generic parameters move to the free function (`gen=<F:Fixed>`)
            head_s.insert(2, fs.extra["gen"].replace(":", " : "))
        rules.fired.add("R11")
    parts = []
    if fs.quals is None:
        parts.append(" ".join(quals))
    parts.append(" ".join(head_s))
    if ret is not None:
        ret_s = rewrite_tokens(ret, rules, opts)
        if fs.selfty:
            if fs.extra.get("err"):
                # the impl's associated type `Self::Err` written out (`err=<type>`)
                j = 0
                while j + 2 < len(ret_s):
                    if ret_s[j:j + 3] == ["Self", "::", "Err"]:
                        ret_s[j:j + 3] = [fs.extra["err"]]
                    j += 1
            ret_s = [fs.selfty if s == "Self" else s for s in ret_s]
        parts.append("-> (%s: %s)" % (fs.ret, " ".join(ret_s)))
    if where:
        parts.append(" ".join(rewrite_tokens(where, rules, opts)))
    sig_txt = " ".join(p for p in parts if p)
    for a, b in ctx.get("sigsubst", []):
        # R13: supertrait split.  Verus rejects the trait cycle Fixed: FromFixed + ToFixed / FromFixed::f<F: Fixed>, so a unit
        # declares `Fixed` without those supertraits and the generic bound of the real signature is widened accordingly
        if a in sig_txt:
            sig_txt = sig_txt.replace(a, b)
            rules.fired.add("R13")
    contract = ""
    if fs.requires:
        contract += "\n    requires " + ",\n        ".join(fs.requires) + ","
        rules.fired.add("R9")
    if fs.ensures:
        contract += "\n    ensures " + ",\n        ".join(fs.ensures) + ","
        rules.fired.add("R9")
    if fs.decreases:
        contract += "\n    decreases " + fs.decreases + ","
    if fs.sig_only:
        table.append({"item": "%s::%s" % (fs.anchor, fs.name), "sig_only": True,
                      "sha256_orig": sha(orig), "rules": sorted(rules.fired), "props": fs.props,
                      "src_line": idx.line_of(it.t0)})
        return sig_txt + contract + ";\n"
    if fs.assume:
        # callee contract assumed in this unit (it is proved in the unit that owns the function)
        table.append({"item": "%s::%s" % (fs.anchor, fs.newname or fs.name), "assumed": True, "sig_only": True,
                      "sha256_orig": sha(orig), "rules": sorted(rules.fired), "props": fs.props,
                      "src_line": idx.line_of(it.t0)})
        return "#[verifier::external_body]\n" + sig_txt + contract + "\n{ unimplemented!() }\n"
    body = toks[it.tb + 1:it.t1]
    body = drop_unused_rev(body, rules)
    body = desugar_zip_index(body, rules)
    body = desugar_enumerate(body, rules)
    body = desugar_ref_pattern_for(body, rules)
    body = desugar_iter_mut(body, rules)
    body = desugar_closure_pattern(body, rules, fs.closures)
    if fs.extra.get("etactor"):
        # R25: a tuple-struct constructor passed as a function value, `. map ( Name )`, is eta-expanded to the closure
        # `| __cv | -> ( __cr : Type ) ensures __cr == Name ( __cv ) { Name ( __cv ) }` (Verus does not accept a constructor as a function
        # value; the constructor used as a function IS this function).  `etactor=Name/Type`
        cname, _, ctype = fs.extra["etactor"].partition("/")
        nb = []
        j = 0
        while j < len(body):
            if j + 4 < len(body) and [t.s for t in body[j:j + 5]] == [".", "map", "(", cname, ")"]:
                a0 = body[j].a
                nb += body[j:j + 3]
                nb.append(Tok("raw", "| __cv | -> ( __cr : %s ) ensures __cr == %s ( __cv ) { %s ( __cv ) }" % (ctype, cname, cname), a0, a0))
                nb.append(body[j + 4])
                rules.fired.add("R25")
                j += 5
                continue
            nb.append(body[j])
            j += 1
        body = nb
    if mut_self:
        # R23 (see the signature): every `self` of the body is the mutable local copy
        body = [Tok(t.k, "self_m", t.a, t.b) if (t.k == "id" and t.s == "self") else t for t in body]
    # loop invariants and anchored hints are inserted by token position
    inserts = {}
    if fs.loops:
        lp = find_loops(body)
        for k, txt in fs.loops.items():
            if k >= len(lp):
                raise ExtractError("%s::%s has no loop #%d" % (fs.anchor, fs.name, k))
            inserts.setdefault(lp[k], []).append("\n" + txt + "\n")
            rules.fired.add("R9")
    if fs.ticks:
        # R14 (C17): a ghost iteration counter.  Every loop body starts by incrementing it, every `while` / `loop` without a
        # decreases clause of its own gets `decreases (<bound>) - vticks`, and the bound is asserted at every exit (below)
        lp = find_loops(body)
        for k, pos in enumerate(lp):
            inserts.setdefault(pos + 1, []).append("\nproof { vticks = vticks + 1; }\n")
            kw = None
            q = pos
            while q >= 0:
                if body[q].k == "id" and body[q].s in ("while", "for", "loop"):
                    kw = body[q].s
                    break
                q -= 1
            spec_txt = fs.loops.get(k, "")
            auto_inv = None
            if kw in ("while", "loop"):
                auto_inv = "vticks <= (%s)" % fs.ticks
                if "decreases" not in spec_txt:
                    inserts.setdefault(pos, []).append("\ndecreases (%s) - vticks\n" % fs.ticks)
            elif kw == "for":
                # `for <ident> in <lo> .. <hi> {`: the counter advances in step with the loop variable
                hdr = body[q + 1:pos]
                ss = [t.s for t in hdr]
                if len(ss) >= 5 and ss[1] == "in" and hdr[0].k == "id" and ".." in ss and "..=" not in ss and "." not in ss[2:]:
                    d = ss.index("..")
                    lo = " ".join(ss[2:d])
                    inserts.setdefault(q, []).append("\nlet ghost __tick_base_%d = vticks;\n" % k)
                    auto_inv = "vticks == __tick_base_%d + (%s as int - (%s) as int)" % (k, ss[0], lo)
            if auto_inv:
                if k in fs.loops:
                    # the template's invariant text comes first (already inserted); extend it
                    inserts[pos][0] = inserts[pos][0].rstrip().rstrip(",") + ", " + auto_inv + ",\n"
                else:
                    inserts.setdefault(pos, []).insert(0, "\ninvariant " + auto_inv + ",\n")
        rules.fired.add("R14")
    if fs.loopbodies:
        lp = find_loops(body)
        for k, txt in fs.loopbodies.items():
            if k >= len(lp):
                raise ExtractError("%s::%s has no loop #%d" % (fs.anchor, fs.name, k))
            if txt.startswith("raw "):
                inserts.setdefault(lp[k] + 1, []).append("\n" + txt[4:] + "\n")      # ghost declarations visible in the whole loop body
            else:
                inserts.setdefault(lp[k] + 1, []).append("\nproof { " + txt + " }\n")
            rules.fired.add("R9-anchored-hint")
    if fs.afterloops:
        # hint placed right after the closing brace of loop #k (the only place where the state a loop leaves behind can be named when
        # nothing follows the loop in its block)
        lp = find_loops(body)
        for k, txt in fs.afterloops.items():
            if k >= len(lp):
                raise ExtractError("%s::%s has no loop #%d" % (fs.anchor, fs.name, k))
            close = match_close(body, lp[k])
            if txt.startswith("raw "):
                inserts.setdefault(close + 1, []).append("\n" + txt[4:] + "\n")
            else:
                inserts.setdefault(close + 1, []).append("\nproof { " + txt + " }\n")
            rules.fired.add("R9-anchored-hint")
    for (prefix, occ, txt) in fs.after:
        want = [t.s for t in lex(prefix)]
        found = -1
        seen = 0
        for p in range(len(body) - len(want) + 1):
            if [t.s for t in body[p:p + len(want)]] == want:
                if seen == occ:
                    found = p
                    break
                seen += 1
        if found < 0:
            raise ExtractError("%s::%s: hint anchor %r not found" % (fs.anchor, fs.name, prefix))
        if txt.startswith("BEFORE "):
            if txt[7:].startswith("raw "):
                inserts.setdefault(found, []).append("\n" + txt[11:] + "\n")   # ghost declarations that must outlive the block
            else:
                inserts.setdefault(found, []).append("\nproof { " + txt[7:] + " }\n")
            rules.fired.add("R9-anchored-hint")
            continue
        # end of that statement: next `;` at relative depth 0
        depth = 0
        p = found
        while p < len(body):
            s = body[p].s
            if body[p].k == "p":
                if s in OPEN:
                    depth += 1
                elif s in CLOSE:
                    depth -= 1
                elif s == ";" and depth == 0:
                    break
            p += 1
        if txt.startswith("raw "):
            inserts.setdefault(p + 1, []).append("\n" + txt[4:] + "\n")      # ghost declarations that must outlive the block
        else:
            inserts.setdefault(p + 1, []).append("\nproof { " + txt + " }\n")
        rules.fired.add("R9-anchored-hint")
    opts_b = dict(opts)
    opts_b["in_body"] = True
    # rewrite body in segments so that insert positions stay valid
    cuts = sorted(inserts)
    segs = []
    prev = 0
    for c in cuts:
        segs.append(emit(rewrite_tokens(body[prev:c], rules, opts_b)))
        segs.append("".join(inserts[c]))
        prev = c
    segs.append(emit(rewrite_tokens(body[prev:], rules, opts_b)))
    body_txt = "\n".join(segs)
    for pair in fs.boolor:
        # R15: Verus has no non-short-circuit `|` on bool.  `boolor a b` rewrites the exact text `a | b` (two named bool locals, no side
        # effects, so `|` and `||` agree) to `a || b`; the extraction fails if the text is not found exactly once
        a, b = pair.split()
        pat = r"(?<![\w|])%s\s*\|\s*%s(?![\w|])" % (re.escape(a), re.escape(b))
        if len(re.findall(pat, body_txt)) != 1:
            raise ExtractError("%s::%s: boolor %s %s: text not found exactly once" % (fs.anchor, fs.name, a, b))
        body_txt = re.sub(pat, "%s || %s" % (a, b), body_txt)
        rules.fired.add("R15")
    if fs.selfty:
        body_txt = re.sub(r"\bSelf\b", fs.selfty, body_txt)
    head_txt = ""
    if param_lets:
        head_txt = "\n".join(param_lets) + "\n"
    if fs.head.strip():
        head_txt += fs.head.strip() + "\n"
    if fs.ticks:
        chk = "proof { assert(vticks <= (%s)); }" % fs.ticks
        body_txt = re.sub(r"(?<=[;{}])(\s*)return\b", r"\1" + chk.replace("\\", "\\\\") + " return", body_txt)
        body_txt = "let ghost mut vticks: int = 0;\nlet __tick_r = {\n" + body_txt + "\n};\n" + chk + "\n__tick_r"
    if getattr(fs, "twin_wrap", False):
        # vacuity guard (DESIGN.md §3.8): the end of the real body must be reachable under requires + hints,
        # i.e. this assertion has to FAIL; contracts are left untouched so callers are not affected
        # a body whose paths all leave through `return` never reaches its end: the same assertion is placed in
        # front of every statement-position `return`, and one failing assertion is enough for the twin to count
        body_txt = re.sub(r"(?<=[;{}])(\s*)return\b", r"\1proof { assert(false); } return", body_txt)
        body_txt = "let __twin_r = {\n" + body_txt + "\n};\nproof { assert(false); }\n__twin_r"
    text = sig_txt + contract + "\n{\n" + head_txt + "// ---- verbatim body from expanded.rs:%d (sha256 %s) ----\n" % (
        idx.line_of(it.tb), sha(idx.src(it.tb, it.t1))) + body_txt + "\n}\n"
    table.append({"item": "%s::%s" % (fs.anchor, fs.newname or fs.name), "sha256_orig": sha(orig),
                  "sha256_body": sha(idx.src(it.tb, it.t1)), "sha256_rewritten": sha(body_txt),
                  "rules": sorted(rules.fired), "props": fs.props, "src_line": idx.line_of(it.t0),
                  "n_requires": len(fs.requires), "n_ensures": len(fs.ensures),
                  "anchored_hints": len(fs.after), "loops": len(fs.loops), "notwin": fs.notwin,
                  "fn_name": fs.newname or fs.name})
    return text


def ctx_opts(ctx):
    return {"frac_consts": ctx.get("frac_consts", False), "rename_int": True}


def subst(text, env):
    for k, v in env.items():
        text = text.replace("{{%s}}" % k, v)
    return text


def _top_groups(spec):
    """contents of the top-level parenthesised groups of `spec` (nested parentheses allowed inside a group)"""
    out, depth, cur = [], 0, []
    for ch in spec:
        if ch == "(":
            depth += 1
            if depth == 1:
                cur = []
                continue
        elif ch == ")":
            depth -= 1
            if depth == 0:
                out.append("".join(cur))
                continue
        if depth >= 1:
            cur.append(ch)
    return out


def expand_includes(lines, root):
    out = []
    for ln in lines:
        s = ln.strip()
        if s.startswith("//@include_methods "):
            # copy the declarations (with their contracts) of the named trait methods verbatim from another contract file, so
            # that a contract ASSUMED for a generic parameter here is literally the text PROVED per family there
            m = re.match(r"//@include_methods\s+(\S+)\s*::\s*(.*)$", s)
            with open(root + "/" + m.group(1)) as f:
                src = f.read()
            chunks = re.split(r"\n(?=    (?:proof fn|fn|spec fn|//) |\}|pub trait )", src)
            for name in m.group(2).split():
                hit = [c for c in chunks if re.match(r"    (?:proof )?fn %s\b" % re.escape(name), c)]
                if len(hit) != 1:
                    raise ExtractError("include_methods: %s not found exactly once in %s" % (name, m.group(1)))
                out.extend(hit[0].rstrip().split("\n"))
            continue
        if s.startswith("//@include "):
            path = s[len("//@include "):].strip()
            if "{{" in path:          # parametrised path: resolved when the enclosing //@for substitutes it
                out.append(ln)
                continue
            with open(root + "/" + path) as f:
                out.extend(expand_includes(f.read().split("\n"), root))
        else:
            out.append(ln)
    return out


def expand_for(lines, root):
    """Expand //@for ... //@endfor blocks (nestable); includes are already inlined."""
    out = []
    i = 0
    while i < len(lines):
        ln = lines[i]
        s = ln.strip()
        if s.startswith("//@for "):
            m = re.match(r"//@for\s+([\w,\s]+?)\s+in\s+(.*)$", s)
            names = [x.strip() for x in m.group(1).split(",")]
            spec = m.group(2).strip()
            if spec.startswith("@"):
                key = spec[1:]
                only = None
                if key == "OTHERS":
                    # all families except the instance's own
                    for fl in open(root + "/specs/families.txt"):
                        if fl.startswith("ALL10:"):
                            spec = fl.split(":", 1)[1]
                    spec = " ".join("(" + t + ")" for t in re.findall(r"\(([^()]*)\)", spec) if t.split(";")[0].strip() != PARAMS.get("FAM"))
                    key = None
                if key == "ONE_TWIN":
                    # the unsigned family of the same width as the instance's (signed) family; empty for an unsigned instance
                    rows = []
                    for fl in open(root + "/specs/families.txt"):
                        if fl.startswith("ALL10:"):
                            rows = re.findall(r"\(([^()]*)\)", fl.split(":", 1)[1])
                    mine = [t for t in rows if t.split(";")[0].strip() == PARAMS.get("FAM")]
                    spec = ""
                    if mine and mine[0].split(";")[4].strip() == "true":
                        spec = " ".join("(" + t + ")" for t in rows if t.split(";")[3].strip() == mine[0].split(";")[3].strip() and t.split(";")[4].strip() == "false")
                    key = None
                if key in ("ONE", "ONE_SIGNED", "ONE_UNSIGNED"):
                    # unit instance for a single family (driver runs the ten instances in parallel)
                    only = PARAMS.get("FAM")
                    key = {"ONE": "ALL10", "ONE_SIGNED": "SIGNED5", "ONE_UNSIGNED": "UNSIGNED5"}[key]
                for fl in open(root + "/specs/families.txt"):
                    if key is not None and fl.startswith(key + ":"):
                        spec = fl.split(":", 1)[1]
                if only is not None:
                    spec = " ".join("(" + t + ")" for t in re.findall(r"\(([^()]*)\)", spec) if t.split(";")[0].strip() == only)
            tuples = _top_groups(spec)
            depth = 1
            j = i + 1
            while j < len(lines):
                sj = lines[j].strip()
                if sj.startswith("//@for "):
                    depth += 1
                elif sj.startswith("//@endfor"):
                    depth -= 1
                    if depth == 0:
                        break
                j += 1
            block = lines[i + 1:j]
            for tp in tuples:
                vals = [x.strip() for x in tp.split(";")] if ";" in tp else [x.strip() for x in tp.split(",")]
                env = dict(zip(names, vals))
                out.extend(expand_for([subst(b2, env) for b2 in expand_includes([subst(b, env) for b in block], root)], root))
            i = j + 1
            continue
        out.append(ln)
        i += 1
    return out


PARAMS = {}


def render_unit(idx, tmpl_path, root, must_fail=False, params=None):
    PARAMS.clear()
    PARAMS.update(params or {})
    """Returns (text, table, linemap).  linemap: list of (first_line, last_line, item)."""
    with open(tmpl_path) as f:
        lines = expand_for(expand_includes(f.read().split("\n"), root), root)
    out = []
    table = []
    linemap = []
    defaults = {}
    ctx = {}
    i = 0
    while i < len(lines):
        ln = lines[i]
        s = ln.strip()
        if s.startswith("//@default props"):
            defaults["props"] = s[len("//@default props"):].strip()
            i += 1
            continue
        if s.startswith("//@require_source "):
            # a trusted fact of the unit depends on this text being present in the expansion (regex)
            pat = s[len("//@require_source "):].strip()
            if not re.search(pat, idx.text):
                raise ExtractError("required source text not found: %s" % pat)
            out.append("// required source text present: " + pat)
            i += 1
            continue
        if s.startswith("//@sigsubst "):
            if s.strip() == "//@sigsubst off":
                ctx["sigsubst"] = []
            else:
                a, b = s[len("//@sigsubst "):].split("=>")
                ctx.setdefault("sigsubst", []).append((a.strip(), b.strip()))
            i += 1
            continue
        if s.startswith("//@ctx "):
            for kv in s[len("//@ctx "):].split():
                k, v = kv.split("=")
                ctx[k] = (v == "true")
            i += 1
            continue
        if s.startswith("//@fn "):
            j = i
            block = []
            while not lines[j].strip().startswith("//@end"):
                l2 = lines[j]
                st = l2.strip()
                block.append(st[3:] if st.startswith("//@") else l2)
                j += 1
            block[0] = block[0].strip()
            fs = parse_fn_directive(block, defaults)
            if must_fail and not fs.sig_only and not fs.assume and not fs.notwin:
                fs.twin_wrap = True
            txt = render_fn(idx, fs, table, ctx)
            first = len(out) + 1
            out.extend(txt.split("\n"))
            linemap.append((first, len(out), table[-1]["item"]))
            i = j + 1
            continue
        if s.startswith("//@convert_bodies"):
            nconv, nskip = render_convert_headers(idx, table, linemap, out, defaults.get("props"), bodies=True, must_fail=must_fail)
            i += 1
            continue
        if s.startswith("//@convert_headers"):
            nconv, nskip = render_convert_headers(idx, table, linemap, out, defaults.get("props"))
            out.append("// %d conversion impl headers translated, %d outside this unit (floats, isize/usize)" % (nconv, nskip))
            i += 1
            continue
        if s.startswith("//@nbits "):
            # R6: `const NBITS: u32 = Self::NBits::U32` with `type NBits = U<k>` in the real impl
            ty = s.split()[1]
            cs = idx.containers("impl IntHelper for " + ty)
            if len(cs) != 1:
                raise ExtractError("impl IntHelper for %s not found" % ty)
            c = cs[0]
            txt = idx.src(c.tb, c.t1)
            m = re.search(r"type\s+NBits\s*=\s*U(\d+)\s*;", txt)
            if not m:
                raise ExtractError("NBits of %s not found" % ty)
            out.append("impl IntHelper for %s { const NBITS: u32 = %s; }" % (ty, m.group(1)))
            i += 1
            continue
        if s.startswith("//@item "):
            m = re.match(r"//@item\s+(.*?)\s*::\s*(struct|trait|enum|fn|const)\s+(\w+)", s)
            it = idx.find_item(m.group(1), m.group(2), m.group(3))
            rules = Rules()
            strs = rewrite_tokens(idx.toks[it.t0:it.t1 + 1], rules, {})
            if m.group(2) == "struct":
                # R5: fields become pub (pub(crate) too)
                joined = " ".join(strs).replace("pub ( crate )", "pub")
                strs = joined.split(" ")
                res = []
                depth = 0
                for k2, x in enumerate(strs):
                    res.append(x)
                    if x == "{":
                        depth += 1
                    elif x == "}":
                        depth -= 1
                    if depth == 1 and x in ("{", ",") and k2 + 1 < len(strs) and strs[k2 + 1] not in ("pub", "}"):
                        res.append("pub")
                strs = res
            if m.group(2) == "struct" and strs and strs[0] == "struct":
                strs = ["pub"] + strs          # R5: visibility only
            if m.group(2) == "const":
                # R19: a module-level const table is an `exec const` for Verus (mode annotation only; initialiser verbatim)
                k0 = strs.index("const")
                strs = ["pub", "exec"] + strs[k0:]
            if m.group(2) == "enum" and strs and strs[0] == "enum":
                strs = ["pub"] + strs          # R5: visibility only (a private enum named in a re-declared trait's contract)
            out.extend(emit(strs).split("\n"))
            i += 1
            continue
        if s.startswith("//@const "):
            # R4: an associated const that depends on Frac becomes a zero-argument fn with the same initialiser
            j = i
            block = []
            while not lines[j].strip().startswith("//@end"):
                st = lines[j].strip()
                block.append(st[3:] if st.startswith("//@") else lines[j])
                j += 1
            m = re.match(r"const\s+(.*?)\s*::\s*(\w+)\s*(.*)$", block[0].strip())
            anchor, cname, copts = m.group(1), m.group(2), m.group(3)
            it = idx.find_item(anchor, "const", cname)
            toks = idx.toks
            k2 = it.t0
            while toks[k2].s != "const":
                k2 += 1
            # const NAME : TYPE = INIT ;
            eqi = k2 + 3
            depth = 0
            while not (toks[eqi].s == "=" and depth == 0):
                if toks[eqi].s in ("<", "("):
                    depth += 1
                elif toks[eqi].s in (">", ")"):
                    depth -= 1
                eqi += 1
            rules = Rules()
            rules.fired.add("R4")
            ty = " ".join(rewrite_tokens(toks[k2 + 3:eqi], rules, ctx_opts(ctx)))
            init = emit(rewrite_tokens(toks[eqi + 1:it.t1], rules, dict(ctx_opts(ctx), in_body=True)))
            fs = parse_fn_directive(["fn %s :: %s" % (anchor, cname)] + block[1:], defaults)
            contract = ""
            if fs.ensures:
                contract = "\n    ensures " + ",\n        ".join(fs.ensures) + ","
            first = len(out) + 1
            item_name = "%s::const %s" % (anchor, cname)
            if "assume" in copts:
                out.extend(("#[verifier::external_body]\npub fn %s() -> (r: %s)%s\n{ unimplemented!() }" % (cname, ty, contract)).split("\n"))
                table.append({"item": item_name, "assumed": True, "sig_only": True, "sha256_orig": sha(idx.src(it.t0, it.t1)),
                              "rules": sorted(rules.fired), "props": fs.props, "src_line": idx.line_of(it.t0)})
            else:
                init_txt = init
                if must_fail:
                    init_txt = "let __twin_r = {\n" + init + "\n};\nproof { assert(false); }\n__twin_r"
                out.extend(("pub fn %s() -> (r: %s)%s\n{\n%s\n// ---- verbatim initialiser from expanded.rs:%d ----\n%s\n}" % (
                    cname, ty, contract, fs.head.strip(), idx.line_of(it.t0), init_txt)).split("\n"))
                table.append({"item": item_name, "sha256_orig": sha(idx.src(it.t0, it.t1)), "sha256_rewritten": sha(init),
                              "rules": sorted(rules.fired), "props": fs.props, "src_line": idx.line_of(it.t0),
                              "n_requires": 0, "n_ensures": len(fs.ensures), "fn_name": cname})
            linemap.append((first, len(out), item_name))
            i = j + 1
            continue
        out.append(ln)
        i += 1
    return "\n".join(out) + "\n", table, linemap


# ------------------------------------------------------------------ R6: typenum where-clause translator (convert.rs)

def _split_top(s, sep=","):
    """split on `sep` at angle-bracket depth 0"""
    out, depth, cur = [], 0, []
    for tok in s.split():
        if tok == "<":
            depth += 1
        elif tok == ">":
            depth -= 1
        elif tok == ">>":
            depth -= 2
        if tok == sep and depth == 0:
            out.append(" ".join(cur))
            cur = []
        else:
            cur.append(tok)
    if cur:
        out.append(" ".join(cur))
    return out


def _tn_val(t):
    """value of a typenum type expression as Verus int text"""
    t = t.strip()
    m = re.match(r"^U(\d+)$", t)
    if m:
        return m.group(1)
    m = re.match(r"^Diff < (.*) >$", t)
    if m:
        a, b = _split_top(m.group(1))
        return "(%s - %s)" % (_tn_val(a), _tn_val(b))
    if re.match(r"^\w+$", t):
        return "%s::U32 as int" % t
    raise ExtractError("typenum expression not understood: " + t)


def translate_where(where):
    """`A: IsLessOrEqual<B, Output = True>` => val(A) <= val(B);  `A: Sub<B>` => val(B) <= val(A)"""
    reqs = []
    for cl in _split_top(where):
        lhs, rhs = cl.split(" : ", 1)
        m = re.match(r"^IsLessOrEqual < (.*) , Output = True >$", rhs.strip())
        if m:
            reqs.append("%s <= %s" % (_tn_val(lhs), _tn_val(m.group(1))))
            continue
        m = re.match(r"^Sub < (.*) >$", rhs.strip())
        if m:
            reqs.append("%s <= %s" % (_tn_val(m.group(1)), _tn_val(lhs)))
            continue
        raise ExtractError("where-clause not understood: " + cl)
    return reqs


_INTW = {"i8": (True, 8), "i16": (True, 16), "i32": (True, 32), "i64": (True, 64), "i128": (True, 128),
         "u8": (False, 8), "u16": (False, 16), "u32": (False, 32), "u64": (False, 64), "u128": (False, 128),
         "bool": (False, 1)}


def _conv_type(t):
    """-> (signed, width, frac text) or None for types outside this unit (floats, isize/usize)"""
    t = t.strip()
    m = re.match(r"^Fixed([IU])(\d+) < (\w+) >$", t)
    if m:
        fr = m.group(3)
        mm = re.match(r"^U(\d+)$", fr)
        return (m.group(1) == "I", int(m.group(2)), mm.group(1) if mm else "%s::U32 as int" % fr)
    if t in _INTW:
        return (_INTW[t][0], _INTW[t][1], "0")
    return None


_CONV_SHAPES = {
    "src . to_num ( )": "to_num",
    "let unshifted = Self :: from_bits ( src . into ( ) ) . to_bits ( ) ; let shift = FracDst :: U32 ; Self :: from_bits ( unshifted << shift )": "shift",
    "let unshifted = Self :: from_bits ( src . to_bits ( ) . into ( ) ) . to_bits ( ) ; let shift = FracDst :: U32 - FracSrc :: U32 ; Self :: from_bits ( unshifted << shift )": "shift",
    "Self :: from_bits ( src )": "from_bits",
    "src . to_bits ( ) . into ( )": "to_bits_into",
}


# bodies that are deliberately left to the Kani instances (delegations through `into()`, floats, identity)
_CONV_SKIP = {"src . into ( )", "src . to_repr_fixed ( ) . to_num ( )", "src", "src as f32", "src as f64"}


def render_convert_headers(idx, table, linemap, out, props, bodies=False, must_fail=False):
    """One proof obligation per From / LossyFrom impl of `mod convert` between fixed-point types, integers and bool:
    the translated where-clause (R6) must imply that the conversion cannot overflow (and, for From, loses nothing)."""
    conv = [c for c in idx.root.children if c.kind == "mod" and c.name == "convert"]
    if not conv:
        raise ExtractError("mod convert not found")
    n = 0
    skipped = 0
    for c in conv[0].children:
        if c.kind != "impl":
            continue
        h = c.header.replace(">>", "> >")
        m = re.match(r"^impl (?:< (.*?) > )?(From|LossyFrom) < (.*) > for (.*?)(?: where (.*))?$", h)
        if not m:
            continue
        gens, trait, src_t, dst_t, where = m.groups()
        src, dst = _conv_type(src_t), _conv_type(dst_t)
        if src is None or dst is None:
            skipped += 1
            continue
        reqs = translate_where(where) if where else []
        gen_txt, bounds = "", []
        if gens:
            gl = []
            for g in _split_top(gens):
                name, bound = [x.strip() for x in g.split(":")]
                gl.append("%s: %s" % (name, bound))
                bounds.append("%s::bound();" % name)
            gen_txt = "<" + ", ".join(gl) + ">"
        (ss, ws, fs), (sd, wd, fd) = src, dst
        body_toks = [t.s for t in idx.toks[c.tb + 1:c.t1]]
        body_norm = " ".join(t for t in body_toks if t not in ("#", "[", "]", "inline"))
        n += 1
        name = "conv_%d" % n
        first = len(out) + 1
        ens = "fits(%s, %d, R_conv(b, %s, %s))" % (str(sd).lower(), wd, fs, fd)
        if trait == "From":
            ens += ", %s <= %s" % (fs, fd)      # value preserving: no fraction bit is dropped
        out.append("// %s" % h)
        out.append("proof fn %s%s(b: int)" % (name, gen_txt))
        out.append("    requires fits(%s, %d, b)%s" % (str(ss).lower(), ws, "".join(", " + r for r in reqs)))
        out.append("    ensures %s" % ens)
        out.append("{ %s lemma_conv_fits(%s, %d, %s, %s, %d, %s, b); }" % (" ".join(bounds), str(ss).lower(), ws, fs, str(sd).lower(), wd, fd))
        linemap.append((first, len(out), h))
        table.append({"item": h, "sha256_orig": sha(idx.src(c.t0, c.t1)), "rules": ["R6"], "props": props,
                      "src_line": idx.line_of(c.t0), "n_requires": len(reqs), "n_ensures": 1, "notwin": True,
                      "body": body_norm[:160]})
        if not bodies:
            continue
        # the body of the impl's single method, re-homed as a free function (R11) under the translated where-clause (R6)
        fns = [f for f in c.children if f.kind == "fn"]
        if len(fns) != 1 or src_t.strip() == "bool" or dst_t.strip() == "bool":
            continue
        f0 = fns[0]
        btoks = idx.toks[f0.tb + 1:f0.t1]
        btxt = " ".join(t.s for t in btoks)
        shape = _CONV_SHAPES.get(btxt)
        soft = False
        if shape is None:
            if btxt in _CONV_SKIP:
                continue
            # a body of a shape this unit has no proof recipe for (e.g. after a rewrite of the impl): it is still put under the
            # same contract with the generic hints, but a failure is UNDECIDED, not a violation (soft obligation)
            shape, soft = "unknown", True
        rules = Rules()
        body_txt = emit(rewrite_tokens(btoks, rules, {"frac_consts": True, "rename_int": True, "in_body": True}))
        dst_txt = dst_t.strip()
        body_txt = re.sub(r"\bSelf\s*::", "< " + dst_txt + " > ::", body_txt)
        body_txt = re.sub(r"\bSelf\b", dst_txt, body_txt)
        src_fixed = src_t.strip().startswith("Fixed")
        dst_fixed = dst_txt.startswith("Fixed")
        sb = "src.bits as int" if src_fixed else "src as int"
        rb = "r.bits as int" if dst_fixed else "r as int"
        dT = ("i" if sd else "u") + str(wd)
        hints = ["%s::<%s>(%s);" % (name, ", ".join(x.split(":")[0].strip() for x in _split_top(gens)), sb) if gens else "%s(%s);" % (name, sb)]
        hints = ["lemma_p2_consts();", "ax_prim_from();"] + bounds + hints
        hints.append("assert((%s) * p2(0) == (%s)) by (nonlinear_arith) requires p2(0) == 1;" % (sb, sb))
        if trait == "From":
            hints.append("lemma_conv_exact(%s, %s, %s);" % (sb, fs, fd))
        if shape == "shift":
            hints.append("lemma_shl_%s((%s) as %s, ((%s) - (%s)) as u32);" % (dT, sb, dT, fd, fs))
        fname = "convfn_%d" % n
        item = "%s :: %s" % (h, f0.name)
        first = len(out) + 1
        out.append("// %s :: %s  (re-homed as a free function, R11; where-clause translated, R6)" % (h, f0.name))
        out.append("pub fn %s%s(src: %s) -> (r: %s)" % (fname, gen_txt, src_t.strip(), dst_txt))
        if reqs:
            out.append("    requires " + ", ".join(reqs))
        out.append("    ensures %s == R_conv(%s, %s, %s)" % (rb, sb, fs, fd))
        out.append("{")
        out.append("proof { %s }" % " ".join(hints))
        out.append("// ---- verbatim body from expanded.rs:%d (sha256 %s) ----" % (idx.line_of(f0.tb), sha(idx.src(f0.tb, f0.t1))))
        if must_fail:
            out.extend(("let __twin_r = {\n" + body_txt + "\n};\nproof { assert(false); }\n__twin_r").split("\n"))
        else:
            out.extend(body_txt.split("\n"))
        out.append("}")
        linemap.append((first, len(out), item))
        table.append({"item": item, "sha256_orig": sha(idx.src(f0.t0, f0.t1)), "sha256_rewritten": sha(body_txt),
                      "rules": sorted(rules.fired | {"R6", "R11"}), "props": props, "src_line": idx.line_of(f0.t0),
                      "n_requires": len(reqs), "n_ensures": 1, "fn_name": fname, "shape": shape, "soft": soft, "notwin": soft})
    return n, skipped


if __name__ == "__main__":
    # debugging aid: rxtract.py expanded.rs template root
    idx = Index(open(sys.argv[1]).read())
    text, table, lm = render_unit(idx, sys.argv[2], sys.argv[3])
    sys.stdout.write(text)
