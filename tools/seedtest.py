#!/usr/bin/env python3
"""seedtest.py <name> <property> <dir-with-X.patch.diff/demo_X.rs/X.meta.txt> <X>

Confirms a seeded change in a scratch worktree of /repo (existing suite passes, demonstration fails with the change and
passes without it), stores it under /verif/seeded/<name>/ and runs `./check <property>` against the changed tree
(VERIF_REPO = the scratch worktree, separate work directory), recording what the check reported.
"""
import json, os, shutil, subprocess, sys, time

ROOT = os.path.dirname(os.path.dirname(os.path.abspath(__file__)))


def sh(cmd, cwd=None, env=None, timeout=3600):
    p = subprocess.run(cmd, cwd=cwd, env=env, shell=isinstance(cmd, str), stdout=subprocess.PIPE, stderr=subprocess.STDOUT, text=True, timeout=timeout)
    return p.returncode, p.stdout


def main():
    name, pid, src, x = sys.argv[1:5]
    props = sys.argv[5:] or [pid]
    tier = os.environ.get("SEED_TIER", "quick")
    wt = "/tmp/seedwt/" + name
    os.makedirs("/tmp/seedwt", exist_ok=True)
    done = "/tmp/seedwt/%s.done" % name
    if os.path.exists(done) or os.path.exists(done + ".running"):
        print(name, "already handled by another queue in this pass")
        return
    open(done + ".running", "w").write(str(os.getpid()))
    sh(["git", "-C", "/repo", "worktree", "remove", "--force", wt])
    rc, out = sh(["git", "-C", "/repo", "worktree", "add", "--detach", wt, "HEAD"])
    assert rc == 0, out
    dst = os.path.join(ROOT, "seeded", name)
    os.makedirs(dst, exist_ok=True)
    if x == "-":      # layout <dir>/patch.diff, demo.rs (fn main), notes.txt
        patch = os.path.join(src, "patch.diff")
        demo = os.path.join(src, "demo.rs")
        meta_txt = open(os.path.join(src, "notes.txt")).read() if os.path.exists(os.path.join(src, "notes.txt")) else ""
        if not meta_txt and os.path.exists(os.path.join(dst, "meta.json")):
            meta_txt = json.load(open(os.path.join(dst, "meta.json"))).get("needs_to_manifest", "")      # re-run of a stored seed
    else:
        patch = os.path.join(src, x + ".patch.diff")
        demo = os.path.join(src, "demo_%s.rs" % x)
        meta_txt = open(os.path.join(src, x + ".meta.txt")).read() if os.path.exists(os.path.join(src, x + ".meta.txt")) else ""
    if os.path.abspath(patch) != os.path.abspath(os.path.join(dst, "patch.diff")):
        shutil.copy(patch, os.path.join(dst, "patch.diff"))
        shutil.copy(demo, os.path.join(dst, "demo.rs"))
    dtxt = open(demo).read()
    if "#[test]" not in dtxt and "fn main" in dtxt:
        # a `fn main` demonstration is run as one test
        demo = "/tmp/seedwt/%s.demo.rs" % name
        open(demo, "w").write(dtxt + "\n#[test]\nfn seed_demo_main() { main() }\n")
    env = dict(os.environ, CARGO_NET_OFFLINE="true", CARGO_TARGET_DIR="/tmp/seedwt/target-" + name)
    env.pop("RUSTFLAGS", None)
    if "verif_hooks" in dtxt:
        env["RUSTFLAGS"] = "--cfg substrate_fixed_verif"      # the demonstration reads the hook counter
    os.makedirs(os.path.join(wt, "tests"), exist_ok=True)
    shutil.copy(demo, os.path.join(wt, "tests", "seed_demo.rs"))
    ran = []
    # 1. demonstration passes on the unchanged tree
    rc0, out0 = sh("cargo test --offline --test seed_demo 2>&1 | tail -5", cwd=wt, env=env)
    demo_clean_ok = "test result: ok" in out0
    ran.append("clean: cargo test --offline --test seed_demo -> %s" % ("pass" if demo_clean_ok else "FAIL"))
    # 2. apply; demonstration fails; existing suite passes
    rc, out = sh(["git", "apply", patch], cwd=wt)
    applied = rc == 0
    rc1, out1 = sh("cargo test --offline --test seed_demo 2>&1 | tail -8", cwd=wt, env=env)
    demo_mut_fails = ("test result: FAILED" in out1) or ("error" in out1 and "test result: ok" not in out1)
    ran.append("changed: cargo test --offline --test seed_demo -> %s" % ("fails" if demo_mut_fails else "PASSES"))
    os.unlink(os.path.join(wt, "tests", "seed_demo.rs"))
    env.pop("RUSTFLAGS", None)
    rc2, out2 = sh("cargo test --workspace --no-fail-fast --offline 2>&1 | grep 'test result'", cwd=wt, env=env)
    suite_ok = out2.count("test result: ok") >= 2 and "FAILED" not in out2
    ran.append("changed: cargo test --workspace --offline -> %s" % out2.strip().replace("\n", " | "))
    confirmed = applied and demo_clean_ok and demo_mut_fails and suite_ok
    # 3. run the checks against the changed tree
    results = {}
    if confirmed:
        sw = os.environ.get("SEED_WORK", "/tmp/seedwork")
        cenv = dict(os.environ, VERIF_REPO=wt, VERIF_WORK=sw, VERIF_REPLAY_DIR=sw + "/replay-out", VERIF_EVIDENCE_DIR=sw + "/evidence")
        for p in props:
            t0 = time.time()
            rc, out = sh([os.path.join(ROOT, "check"), p, "--tier", tier], cwd=ROOT, env=cenv, timeout=7200)
            lines = [l for l in out.split("\n") if l.startswith(("VIOLATION", "UNDECIDED", "KNOWN-FINDING", "SUMMARY"))]
            fails = [l for l in out.split("\n") if l.startswith("OBLIGATION") and "FAILED" in l]
            results[p] = {"exit": rc, "lines": lines[:12], "failed_obligations": fails[:12], "wall_s": round(time.time() - t0, 1)}
    meta = {"name": name, "property": pid, "source": "independent sub-agent (given only the property text and a scratch worktree)",
            "needs_to_manifest": meta_txt.strip(), "confirmed": confirmed,
            "what_i_ran": ran, "check_results": results, "tier": tier,
            "detected": any(r["exit"] == 1 for r in results.values())}
    try:      # a one-line summary written by hand survives a re-run
        old = json.load(open(os.path.join(dst, "meta.json")))
        if old.get("summary"):
            meta["summary"] = old["summary"]
    except Exception:
        pass
    json.dump(meta, open(os.path.join(dst, "meta.json"), "w"), indent=1)
    sh(["git", "-C", "/repo", "worktree", "remove", "--force", wt])
    shutil.rmtree("/tmp/seedwt/target-" + name, ignore_errors=True)
    os.rename(done + ".running", done)
    print(name, "confirmed=%s" % confirmed, {p: (r["exit"], r["lines"][-1:] ) for p, r in results.items()})


if __name__ == "__main__":
    main()
