"""Replay of counterexamples and known findings on the real code (DESIGN.md §3.6)."""
import fcntl
import json
import os
import shutil
import subprocess

CARGO_TOML = """[package]
name = "vreplay"
version = "0.0.0"
edition = "2018"

[workspace]

[dependencies]
substrate-fixed = { path = "%s" }

[profile.dev]
debug = 0
[profile.release]
debug = 0
overflow-checks = false
debug-assertions = false
"""


def run_rust(main_rs, repo, work, profiles=("debug", "release"), hooks=False):
    """Build a small program against the real crate in the given profiles; returns {profile: stdout}."""
    d = os.path.join(work, "replay-crate")
    os.makedirs(os.path.join(d, "src"), exist_ok=True)
    with open(os.path.join(d, "Cargo.toml"), "w") as f:
        f.write(CARGO_TOML % repo)
    for lock in (os.path.join(repo, "Cargo.lock"), "/repo/Cargo.lock"):
        if os.path.exists(lock):      # a scratch worktree may not have one yet
            shutil.copy(lock, os.path.join(d, "Cargo.lock"))
            break
    with open(os.path.join(d, "src", "main.rs"), "w") as f:
        f.write(main_rs)
    env = dict(os.environ, CARGO_NET_OFFLINE="true", CARGO_TARGET_DIR=os.path.join(work, "replay-target"))
    if hooks:
        env["RUSTFLAGS"] = "--cfg substrate_fixed_verif"
    else:
        env.pop("RUSTFLAGS", None)
    out = {}
    lockf = open(os.path.join(work, "replay.lock"), "w")
    fcntl.flock(lockf, fcntl.LOCK_EX)
    for prof in profiles:
        cmd = ["cargo", "run", "--offline", "-q"] + (["--release"] if prof == "release" else [])
        p = subprocess.run(cmd, cwd=d, env=env, stdout=subprocess.PIPE, stderr=subprocess.PIPE, text=True, timeout=1200)
        if p.returncode != 0 and not p.stdout:
            out[prof] = "BUILD-OR-RUN-ERROR: " + p.stderr[-2000:]
        else:
            out[prof] = p.stdout
    fcntl.flock(lockf, fcntl.LOCK_UN)
    lockf.close()
    return out


MAIN_TMPL = """#![allow(unused_imports, unused_variables, unused_mut)]
use substrate_fixed::types::*;
use substrate_fixed::types::extra::*;
use substrate_fixed::*;
use substrate_fixed::traits::*;
use std::panic::catch_unwind;
fn mul_wide(a: u128, b: u128) -> (u128, u128) {
    let (a1, a0) = (a >> 64, a & 0xffff_ffff_ffff_ffff);
    let (b1, b0) = (b >> 64, b & 0xffff_ffff_ffff_ffff);
    let (p00, p01, p10, p11) = (a0 * b0, a0 * b1, a1 * b0, a1 * b1);
    let mid = (p00 >> 64) + (p01 & 0xffff_ffff_ffff_ffff) + (p10 & 0xffff_ffff_ffff_ffff);
    let lo = (p00 & 0xffff_ffff_ffff_ffff) | (mid << 64);
    let hi = p11 + (p01 >> 64) + (p10 >> 64) + (mid >> 64);
    (hi, lo)
}
fn le_wide(a: (u128, u128), b: (u128, u128)) -> bool { a.0 < b.0 || (a.0 == b.0 && a.1 <= b.1) }
fn within4_wide(r: u128, n: u128, f: u32) -> bool {
    let target = if f == 0 { (0, n) } else { (n >> (128 - f), n << f) };
    let up = mul_wide(r + 4, r + 4);
    let lo_ok = if r >= 4 { le_wide(mul_wide(r - 4, r - 4), target) } else { true };
    le_wide(target, up) && lo_ok
}
fn show<T: std::fmt::Debug>(r: std::thread::Result<T>) -> String {
    match r { Ok(v) => format!("{:?}", v), Err(_) => "PANIC".to_string() }
}
fn main() {
    std::panic::set_hook(Box::new(|_| {}));
%s
}
"""


def run_witness(w, repo, work):
    """w: {'exprs': [rust expr, ...], 'expected': [str, ...]} -> (fails?, observed per profile)"""
    body = ""
    for e in w["exprs"]:
        body += '    println!("{}", show(catch_unwind(|| { %s })));\n' % e
    outs = run_rust(MAIN_TMPL % body, repo, work, hooks=w.get("hooks", False))
    observed = {p: o.strip().split("\n") for p, o in outs.items()}
    fails = any(obs != list(w["expected"]) for obs in observed.values())
    return fails, observed


def replay_known(k, repo, work, root):
    fails, observed = run_witness(k["witness"], repo, work)
    return fails, json.dumps(observed)


def find_counterexample(pid, fl, repo, work, root, log):
    import cesearch
    return cesearch.search(pid, fl, repo, work, root, log)


def replay_file(path, repo, work, root):
    rp = json.load(open(path))
    ce = rp.get("counterexample")
    print("replay of %s: obligation %s" % (path, rp.get("obligation")))
    print("verifier: %s" % rp.get("verifier_message"))
    if ce and ce.get("harness") and ce.get("vals"):
        import cesearch
        panicked, transcript = cesearch.run_native(ce["harness"], ce["vals"], repo, work, root)
        print("harness %s re-run natively on the recorded values %s" % (ce["harness"], [d["signed"] for d in ce.get("kani_any_values_in_call_order", [])]))
        print(transcript[-1500:])
        print("REPRODUCED (the harness assertion fails on the real code)" if panicked else "NOT-REPRODUCED (the real code now satisfies the harness on these inputs)")
        return 1 if panicked else 0
    if not ce or not ce.get("witness"):
        print("no failing input recorded (no-failing-input-found); verifier output:\n" + rp.get("verifier_output", ""))
        return 1
    fails, observed = run_witness(ce["witness"], repo, work)
    print("expected: %s" % ce["witness"]["expected"])
    print("observed: %s" % json.dumps(observed))
    print("REPRODUCED" if fails else "NOT-REPRODUCED (the real code now agrees with the expected value)")
    return 1 if fails else 0
