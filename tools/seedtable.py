#!/usr/bin/env python3
"""Markdown table of the seeded changes (seeded/*/meta.json) for DESIGN.md §11.6; `--write` replaces the table in DESIGN.md."""
import json, os, re, sys
root = os.path.dirname(os.path.dirname(os.path.abspath(__file__)))
rows = []
for name in sorted(os.listdir(os.path.join(root, "seeded"))):
    mp = os.path.join(root, "seeded", name, "meta.json")
    if not os.path.exists(mp):
        continue
    m = json.load(open(mp))
    need = re.sub(r"\s+", " ", m.get("needs_to_manifest", ""))[:230].replace("|", "/")
    res = []
    for pid, r in sorted(m.get("check_results", {}).items()):
        fails = [re.sub(r"^OBLIGATION ", "", f).replace(" FAILED", "") for f in r.get("failed_obligations", [])]
        first = fails[0][:110].replace("|", "/") if fails else ""
        ce = any(l.startswith("VIOLATION") and not l.endswith("no-failing-input-found") for l in r.get("lines", []))
        verdict = {0: "MISSED (exit 0)", 1: "VIOLATION" + (" with replayed counterexample" if ce else ", no-failing-input-found"), 2: "UNDECIDED (exit 2)"}.get(r["exit"], str(r["exit"]))
        res.append("`./check %s` (%s): %s%s" % (pid, m.get("tier", "quick"), verdict, ("; first failed obligation: `%s`" % first) if first else ""))
    rows.append("| %s | %s | %s | %s |" % (name, "yes" if m.get("confirmed") else "NO", need, "<br>".join(res) or "not run"))
table = "| change | confirmed (tests pass, demo fails) | what it is / needs to manifest | result of the checks on the changed tree |\n|---|---|---|---|\n" + "\n".join(rows)
if "--write" in sys.argv:
    p = os.path.join(root, "DESIGN.md")
    s = open(p).read()
    a = s.index("### 11.6 Seeded changes")
    b = s.index("### 11.7 Harmless refactors")
    head = s[a:].split("\n", 1)[0]
    s = s[:a] + head + "\n\nEvery change below was produced by a fresh sub-agent that saw only the property text and a scratch worktree of /repo - nothing from /verif.  Session 1\n(2026-09-26): the names `-A`, `-B` of C01-C12, C17, C18 (and C03-C/D ... C18-C/D).  Session 2 (2026-09-28): `C13-*`, `C14-*`, `C15-*`, the names `-C` ... `-H` of C08, `-C`, `-D` of C09, C12, C17 and `C02-C`, `C06-E`; session 3 (2026-09-28, later; §14.3): `C02-D/E`, `C03-E/F`, `C04-F`, `C05-F`, `C06-G`, `C07-D/E`, `C08-I/J`, `C09-E/F`, `C10-C/D`, `C11-E/F`, `C12-E/F`, `C18-E/F`.  The session-2 agents were additionally told which source area to aim at (the functions brought under contract in\nsession 2) and, from `C15-A` on, to make a small local change rather than a rewrite.  I confirmed each one (existing suite passes, the agent's\ndemonstration fails with the change and passes without it) and then ran the checks with `VERIF_REPO` pointing at the changed tree\n(tools/seedtest.py); patch, demonstration and the full record are in `seeded/<name>/`.  `UNDECIDED (exit 2)` rows are discussed in §12.5 (rewrites).\n\n" + table + "\n\n" + s[b:]
    open(p, "w").write(s)
else:
    print(table)
