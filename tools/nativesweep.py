"""Failing-input search on the REAL code for obligations that have no SAT twin (C13 sqrt, C15 powi).

Never the deciding step: it runs only after the verifier has rejected an obligation, to attach a concrete failing input to the
report (DESIGN.md §3.6 step 2).  A small program sweeps structured and pseudo-random operands through the public API of the
crate under test (built against VERIF_REPO, release profile) and prints the first inputs that violate the property clause,
evaluated exactly in integer arithmetic."""
import re
import replay

HELPERS = r"""
fn mul_wide(a: u128, b: u128) -> (u128, u128) {
    let (a1, a0) = (a >> 64, a & 0xffff_ffff_ffff_ffff);
    let (b1, b0) = (b >> 64, b & 0xffff_ffff_ffff_ffff);
    let (p00, p01, p10, p11) = (a0 * b0, a0 * b1, a1 * b0, a1 * b1);
    let mid = (p00 >> 64) + (p01 & 0xffff_ffff_ffff_ffff) + (p10 & 0xffff_ffff_ffff_ffff);
    let lo = (p00 & 0xffff_ffff_ffff_ffff) | (mid << 64);
    let hi = p11 + (p01 >> 64) + (p10 >> 64) + (mid >> 64);
    (hi, lo)
}
fn le_wide(a: (u128, u128), b: (u128, u128)) -> bool { a.0 < b.0 || (a.0 == b.0 && a.1 <= b.1) }
// (r - 4)^2 <= n * 2^f <= (r + 4)^2, all in units of the last place (r, n < 2^127)
fn within4_wide(r: u128, n: u128, f: u32) -> bool {
    let target = if f == 0 { (0, n) } else { (n >> (128 - f), n << f) };
    let up = mul_wide(r + 4, r + 4);
    let lo_ok = if r >= 4 { le_wide(mul_wide(r - 4, r - 4), target) } else { true };
    le_wide(target, up) && lo_ok
}
"""

SQRT_MAIN = r"""#![allow(unused)]
use substrate_fixed::types::*;
use substrate_fixed::transcendental::sqrt;
use std::panic::catch_unwind;
""" + HELPERS + r"""
macro_rules! sweep {
    ($S:ty, $D:ty, $sb:ty, $sw:expr, $sf:expr, $df:expr, $dint:expr, $dsigned:expr) => {{
        let mut ops: Vec<$sb> = vec![0, 1, (1 as $sb) << $sf, (2 as $sb) << $sf, <$sb>::MAX, <$sb>::MAX - 1];
        let top: u32 = if (<$sb>::MIN as i128) < 0 { $sw - 1 } else { $sw };
        for j in 0..top {
            let p: $sb = (1 as $sb) << j;
            ops.push(p); ops.push(p | 1); ops.push(p - 1);
            if j >= 1 && j + 1 < top { ops.push(p | (p >> 1) | 1); }
        }
        let mut s: u128 = 0x9E3779B97F4A7C15F39CC0605CEDC834;
        for _ in 0..3000 {
            s = s.wrapping_mul(0x2360ED051FC65DA44385DF649FCCF645).wrapping_add(0x5851F42D4C957F2D14057B7EF767814F);
            let sh = (s >> 120) as u32 % top;
            let v = ((s >> 3) as $sb) & (((1 as $sb) << sh) | (((1 as $sb) << sh) - 1));
            ops.push(v);
        }
        for b in ops {
            if (b as i128) < 0 { continue; }
            let x = <$S>::from_bits(b);
            let r = catch_unwind(|| sqrt::<$S, $D>(x));
            let n = (b as u128) << ($df - $sf);
            let what = match r {
                Err(_) => Some("panics".to_string()),
                Ok(Ok(v)) => {
                    let rb = v.to_bits() as i128;
                    if rb < 0 { Some(format!("returns a negative value (bits {})", rb)) }
                    else if !within4_wide(rb as u128, n, $df) { Some(format!("returns bits {} (more than 4 ulp from the root)", rb)) }
                    else if b == 0 && rb != 0 { Some("sqrt(0) is not exact".to_string()) }
                    else if b == ((1 as $sb) << $sf) && rb != (1i128 << $df) { Some("sqrt(1) is not exact".to_string()) }
                    else { None }
                }
                Ok(Err(_)) => {
                    // Err is allowed only below one when the reciprocal 2^(2 FD) / X does not fit D
                    let maxd: u128 = if $dsigned { (1u128 << ($df + $dint - 1)) - 1 } else { u128::MAX >> (128 - $df - $dint) };
                    let below_one = n < (1u128 << $df);
                    // reciprocal fits  <=>  floor(2^(2f) / n) <= maxd  <=>  2^(2f) < (maxd + 1) * n
                    let fits = n != 0 && { let t = if 2 * $df >= 128 { (1u128 << (2 * $df - 128), 0) } else { (0, 1u128 << (2 * $df)) };
                                           let m = if maxd == u128::MAX { (n, 0) } else { mul_wide(maxd + 1, n) }; !le_wide(m, t) };
                    if n == 0 || !below_one || fits { Some("returns Err for an operand whose root is representable".to_string()) } else { None }
                }
            };
            if let Some(w) = what {
                println!("FAIL|sqrt::<{}, {}>|{}|{}|{}|{}|{}", stringify!($S), stringify!($D), b, w, stringify!($sb), $df - $sf, $df);
                break;
            }
        }
    }};
}
fn main() {
    std::panic::set_hook(Box::new(|_| {}));
    sweep!(I9F23, I9F23, i32, 32, 23, 23, 9, true);
    sweep!(I9F23, I32F32, i32, 32, 23, 32, 32, true);
    sweep!(U9F23, U9F23, u32, 32, 23, 23, 9, false);
    sweep!(I32F32, I32F32, i64, 64, 32, 32, 32, true);
    sweep!(U32F32, U32F32, u64, 64, 32, 32, 32, false);
    sweep!(I32F32, I64F64, i64, 64, 32, 64, 64, true);
    sweep!(I16F48, I16F48, i64, 64, 48, 48, 16, true);
    sweep!(I64F64, I64F64, i128, 128, 64, 64, 64, true);
    sweep!(I40F88, I40F88, i128, 128, 88, 88, 40, true);
    sweep!(I96F32, I96F32, i128, 128, 32, 32, 96, true);
    sweep!(U96F32, U96F32, u128, 128, 32, 32, 96, false);
    println!("DONE");
}
"""

POWI_MAIN = r"""#![allow(unused)]
use substrate_fixed::types::*;
use substrate_fixed::transcendental::powi;
use std::panic::catch_unwind;
macro_rules! sweep {
    ($S:ty, $D:ty, $sb:ty, $sf:expr, $df:expr, $nmax:expr) => {{
        let one_s: $sb = (1 as $sb) << $sf;
        let xs: Vec<$sb> = vec![0, one_s, -one_s, one_s / 2, -(one_s / 2), one_s + one_s / 2, 2 * one_s, -2 * one_s, 3 * one_s, -3 * one_s, one_s / 4 * 3,
                                10 * one_s, one_s + 1, one_s - 1, 5 * one_s / 2, -(5 * one_s / 2)];
        let ns: Vec<i32> = vec![0, 1, -1, 2, -2, 3, -3, 4, -4, 5, -5, 6, -6, 31, -31, i32::MAX, i32::MIN];
        'outer: for &xb in xs.iter() { for &n in ns.iter() {
            let x = <$S>::from_bits(xb);
            let r = catch_unwind(|| powi::<$S, $D>(x, n));
            let xd: i128 = (xb as i128) << ($df - $sf);
            let one: i128 = 1i128 << $df;
            let what = match r {
                Err(_) => Some("panics".to_string()),
                Ok(Err(_)) => if xb == 0 || n == 0 || n == 1 { Some("returns Err for a convention case".to_string()) } else { None },
                Ok(Ok(v)) => {
                    let rb = v.to_bits() as i128;
                    if xb == 0 { if rb != 0 { Some(format!("0^n gives bits {}", rb)) } else { None } }
                    else if n == 0 { if rb != one { Some(format!("x^0 gives bits {}", rb)) } else { None } }
                    else if n == 1 { if rb != xd { Some(format!("x^1 gives bits {}", rb)) } else { None } }
                    else if n > 1 && n <= $nmax {
                        // |r * one^(n-1) - X^n| <= (n + 1) * max(one, |X|)^(n-1)
                        let a = if xd.abs() > one { xd.abs() } else { one };
                        let (mut lhs, mut xn, mut an) = (rb, xd, 1i128);
                        for _ in 1..n { lhs *= one; xn *= xd; an *= a; }
                        if (lhs - xn).abs() > (n as i128 + 1) * an { Some(format!("gives bits {} (outside the error bound)", rb)) } else { None }
                    }
                    else if n < 0 && n >= -6 && 2 * $df < 127 {
                        match catch_unwind(|| powi::<$S, $D>(x, -n)) {
                            Ok(Ok(p)) if p.to_bits() as i128 != 0 => { let want = (1i128 << (2 * $df)) / (p.to_bits() as i128);
                                if rb != want { Some(format!("gives bits {} but the truncated reciprocal of powi(x, {}) is {}", rb, -n, want)) } else { None } }
                            _ => None,
                        }
                    } else { None }
                }
            };
            if let Some(w) = what {
                println!("FAIL|powi::<{}, {}>|{}|{}|{}|{}", stringify!($S), stringify!($D), xb, n, w, stringify!($sb));
                break 'outer;
            }
        } }
    }};
}
fn main() {
    std::panic::set_hook(Box::new(|_| {}));
    sweep!(I9F23, I9F23, i32, 23, 23, 4);
    sweep!(I9F23, I32F32, i32, 23, 32, 2);
    sweep!(I32F32, I32F32, i64, 32, 32, 2);
    sweep!(I16F48, I16F48, i64, 48, 48, 2);
    println!("DONE");
}
"""

LOG2_MAIN = r"""#![allow(unused)]
use substrate_fixed::types::*;
use substrate_fixed::transcendental::{log2, ln};
use std::panic::catch_unwind;
macro_rules! sweep {
    ($S:ty, $D:ty, $sb:ty, $sw:expr, $sf:expr, $df:expr, $dint:expr) => {{
        let one_s: $sb = (1 as $sb) << $sf;
        let mut ops: Vec<$sb> = vec![0, -1, -one_s, <$sb>::MIN, <$sb>::MAX, one_s + 1, one_s - 1, 3 * (one_s / 2), one_s / 4 * 3, one_s / 8 * 5, 5 * one_s, 7 * one_s];
        for j in 0..($sw - 1) { let p: $sb = (1 as $sb) << j; ops.push(p); ops.push(p | 1); if j >= 1 { ops.push(p | (p >> 1)); } }
        for b in ops {
            let x = <$S>::from_bits(b);
            let pow2 = b > 0 && (b & (b - 1)) == 0;
            let e: i128 = if pow2 { (b as u128).trailing_zeros() as i128 } else { 0 };
            // the reciprocal 2^(2 df) / (b * 2^(df - sf)) fits D  <=>  it is < 2^(df + dint - 1)
            let recip_fits = b > 0 && { let n = (b as u128) << ($df - $sf); let q = if 2 * $df >= 128 { u128::MAX } else { (1u128 << (2 * $df)) / n }; 2 * $df < 128 && q < (1u128 << ($df + $dint - 1)) };
            for which in 0..2 {
                let r = if which == 0 { catch_unwind(|| log2::<$S, $D>(x)) } else { catch_unwind(|| ln::<$S, $D>(x)) };
                let name = if which == 0 { "log2" } else { "ln" };
                let what = match r {
                    Err(_) => Some("panics".to_string()),
                    Ok(Ok(v)) => {
                        let rb = v.to_bits() as i128;
                        if b <= 0 { Some(format!("returns Ok (bits {}) for a non-positive operand", rb)) }
                        else if b >= one_s && rb < 0 { Some(format!("returns a negative value (bits {}) for an operand >= 1", rb)) }
                        else if b <= one_s && rb > 0 { Some(format!("returns a positive value (bits {}) for an operand <= 1", rb)) }
                        else if which == 0 && pow2 && rb != (e - $sf as i128) * (1i128 << $df) { Some(format!("returns bits {} for 2^{} (not exact)", rb, e - $sf as i128)) }
                        else { None }
                    }
                    Ok(Err(_)) => if b > 0 && (b >= one_s || (recip_fits && 2 * $df < 128)) { Some("returns Err for a positive operand whose reciprocal is representable".to_string()) } else { None },
                };
                if let Some(w) = what {
                    println!("FAIL|{}::<{}, {}>|{}|{}|{}|{}|{}", name, stringify!($S), stringify!($D), b, w, stringify!($sb), $sf, $df);
                    break;
                }
            }
        }
    }};
}
fn main() {
    std::panic::set_hook(Box::new(|_| {}));
    sweep!(I9F23, I9F23, i32, 32, 23, 23, 9);
    sweep!(I9F23, I32F32, i32, 32, 23, 32, 32);
    sweep!(I32F32, I32F32, i64, 64, 32, 32, 32);
    sweep!(I16F48, I16F48, i64, 64, 48, 48, 16);
    sweep!(I64F64, I64F64, i128, 128, 64, 64, 64);
    sweep!(I96F32, I96F32, i128, 128, 32, 32, 96);
    println!("DONE");
}
"""

PARSE_MAIN = r"""#![allow(unused)]
use substrate_fixed::types::*;
use std::panic::catch_unwind;
// independent oracle (u128 arithmetic): the literal grammar and the correctly rounded value
fn digit(b: u8, radix: u32) -> Option<u128> {
    let v = match b { b'0'..=b'9' => (b - b'0') as u32, b'a'..=b'f' => (b - b'a') as u32 + 10, b'A'..=b'F' => (b - b'A') as u32 + 10, _ => return None };
    if v < radix { Some(v as u128) } else { None }
}
// Ok((neg, magnitude in units of 2^-f, rounded half to even)) or Err(message); None = outside the oracle's range (skipped)
fn oracle(s: &str, radix: u32, f: u32) -> Option<Result<(bool, u128), &'static str>> {
    let b = s.as_bytes();
    let (mut neg, mut seen_point, mut any) = (false, false, false);
    let (mut ip, mut fnum, mut fden): (u128, u128, u128) = (0, 0, 1);
    let mut pending_zeros: u32 = 0;
    for (i, &c) in b.iter().enumerate() {
        if c == b'+' || c == b'-' { if i > 0 { return Some(Err("invalid digit found in string")); } neg = c == b'-'; continue; }
        if c == b'.' { if seen_point { return Some(Err("more than one decimal point found in string")); } seen_point = true; continue; }
        match digit(c, radix) {
            None => return Some(Err("invalid digit found in string")),
            Some(d) => { any = true;
                if !seen_point { ip = ip.checked_mul(radix as u128)?.checked_add(d)?; if ip >= (1u128 << 40) { return None; } }
                else if d == 0 { pending_zeros += 1; }
                else { for _ in 0..pending_zeros { fnum = fnum.checked_mul(radix as u128)?; fden = fden.checked_mul(radix as u128)?; } pending_zeros = 0;
                       fnum = fnum.checked_mul(radix as u128)?.checked_add(d)?; fden = fden.checked_mul(radix as u128)?; if fden >= (1u128 << 56) { return None; } } }
        }
    }
    if !any { return Some(Err("string has no digits")); }
    let num = (ip * fden + fnum) << f;        // < 2^(40 + 56 + 32)
    let (q, r) = (num / fden, num % fden);
    let a = if 2 * r > fden || (2 * r == fden && q % 2 == 1) { q + 1 } else { q };
    Some(Ok((neg, a)))
}
macro_rules! sweep {
    ($T:ty, $B:ty, $w:expr, $f:expr, $signed:expr) => {{
        let ints = ["", "0", "000000000000", "1", "7", "0000000000001", "15", "127", "128", "255", "256", "32767", "32768", "65535", "65536", "2147483647", "2147483648", "4294967295", "4294967296", "10", "ff", "7f", "80", "100", "1111", "777"];
        let fracs = ["", ".", ".0", ".000000000000", ".5", ".50", ".25", ".75", ".1", ".10000000", ".4999999999", ".5000000001", ".000000000001", ".8", ".08", ".4", ".7", ".f", ".ff8", ".008", ".0018", ".00008", ".0000800001", ".1000000000000001", ".101", ".0000000000000001", ".99999999", ".9999999999999"];
        let signs = ["", "+", "-"];
        let mut lits: Vec<String> = Vec::new();
        for sg in signs.iter() { for i in ints.iter() { for fr in fracs.iter() { lits.push(format!("{}{}{}", sg, i, fr)); } } }
        for m in ["+-1", "-+1", "1+", "1-", "1.2.3", "..", "1..", "0000000000-1.5", "000000000+ff.8", "00000000-0000", "0-1", "1e5", "1_0", " 1", "1 ", "0x1", "+", "-", ".", "+.", "-.", "", "1.-5", "1.+5", "--1", "1,5", "0.5.", ".5.5", "g", "1.g", "9", "8", "2", "a", "A.A", "f.F"].iter() { lits.push(m.to_string()); }
        'outer: for radix in [10u32, 16, 8, 2] {
            for s in lits.iter() {
                let got = catch_unwind(|| match radix { 10 => <$T>::overflowing_from_str(s), 16 => <$T>::overflowing_from_str_hex(s), 8 => <$T>::overflowing_from_str_octal(s), _ => <$T>::overflowing_from_str_binary(s) });
                let want = match oracle(s, radix, $f) { Some(x) => x, None => continue };
                let got_s = match got { Err(_) => "PANIC".to_string(), Ok(r) => format!("{:?}", r.map(|(v, o)| (v.to_bits(), o)).map_err(|e| e.to_string())) };
                let want_v: Result<($B, bool), String> = match want {
                    Err(m) => Err(m.to_string()),
                    Ok((neg, a)) => {
                        let modulus: i128 = 1i128 << $w;
                        let (lo, hi): (i128, i128) = if $signed { (-(1i128 << ($w - 1)), (1i128 << ($w - 1)) - 1) } else { (0, (1i128 << $w) - 1) };
                        let sv: i128 = if neg { -(a as i128) } else { a as i128 };
                        Ok((sv.rem_euclid(modulus) as u128 as $B, !(sv >= lo && sv <= hi)))
                    }
                };
                let want_s = format!("{:?}", want_v);
                if got_s != want_s {
                    println!("FAIL|{}|{}|{:?}|{}|{}", stringify!($T), radix, s, got_s, want_s);
                    break 'outer;
                }
            }
        }
    }};
}
fn main() {
    std::panic::set_hook(Box::new(|_| {}));
    sweep!(U8F8, u16, 16, 8, false);
    sweep!(I8F8, i16, 16, 8, true);
    sweep!(U0F16, u16, 16, 16, false);
    sweep!(I16F16, i32, 32, 16, true);
    sweep!(U16F16, u32, 32, 16, false);
    sweep!(I32F0, i32, 32, 0, true);
    sweep!(U0F32, u32, 32, 32, false);
    sweep!(I1F31, i32, 32, 31, true);
    sweep!(I4F4, i8, 8, 4, true);
    sweep!(U4F4, u8, 8, 4, false);
    println!("DONE");
}
"""


def search(kind, repo, work, log):
    """-> counterexample dict (confirmed on the real code) or None"""
    main_rs = {"sqrt": SQRT_MAIN, "log2": LOG2_MAIN, "parse": PARSE_MAIN}.get(kind, POWI_MAIN)
    outs = replay.run_rust(main_rs, repo, work, profiles=("release",))
    out = outs.get("release", "")
    if "DONE" not in out:
        log("note: native sweep did not run to completion: %s" % out[-300:].replace("\n", " "))
        return None
    fails = [ln.split("|") for ln in out.split("\n") if ln.startswith("FAIL|")]
    if not fails:
        return {"from_verifier": False, "confirmed": False, "note": "native sweep of the real code (structured operands, see the program text) found no failing input"}
    f = fails[0]
    if kind == "sqrt":
        _, fn, b, what, sb, shift, df = f
        S = re.search(r"<(\w+),", fn).group(1)
        expr = ("{ let r = substrate_fixed::transcendental::%s(%s::from_bits(%s as %s)); match r { Ok(v) => (v.to_bits() as i128) >= 0 && within4_wide(v.to_bits() as u128, (%s as u128) << %s, %s) && (%s != 0 || v.to_bits() == 0), Err(_) => false } }"
                % (fn, S, b, sb, b, shift, df, b))
        desc = "%s(%s::from_bits(%s)) %s" % (fn, S, b, what)
    elif kind == "parse":
        _, ty, radix, lit, got_s, want_s = [x for x in f[:6]]
        meth = {"10": "overflowing_from_str", "16": "overflowing_from_str_hex", "8": "overflowing_from_str_octal", "2": "overflowing_from_str_binary"}[radix]
        expr = "<%s>::%s(%s).map(|(v, o)| (v.to_bits(), o)).map_err(|e| e.to_string())" % (ty, meth, lit)
        desc = "%s::%s(%s) gives %s, the grammar / correctly rounded literal requires %s" % (ty, meth, lit, got_s, want_s)
        return {"from_verifier": False, "confirmed": True, "found_by": "native sweep of the real parser against an independent u128 oracle after the verifier rejected the obligation (tools/nativesweep.py)",
                "failing_input": desc, "all_failing_types": ["%s radix %s: %s gives %s, required %s" % (x[1], x[2], x[3], x[4], x[5]) for x in fails[:12] if len(x) >= 6],
                "witness": {"exprs": [expr], "expected": [want_s]}}
    elif kind == "log2":
        _, fn, b, what, sb, sf, df = f
        S = re.search(r"<(\w+),", fn).group(1)
        one = "((1 as %s) << %s)" % (sb, sf)
        expr = ("{ let b: %s = %s as %s; let r = substrate_fixed::transcendental::%s(%s::from_bits(b)); match r { Ok(v) => { let rb = v.to_bits() as i128; b > 0 && (b < %s || rb >= 0) && (b > %s || rb <= 0) "
                "&& (%s || (b & (b - 1)) != 0 || rb == ((b as u128).trailing_zeros() as i128 - %s) * (1i128 << %s)) }, Err(_) => b <= 0 || b < %s } }"
                % (sb, b, sb, fn, S, one, one, "true" if fn.startswith("ln") else "false", sf, df, one))
        desc = "%s(%s::from_bits(%s)) %s" % (fn, S, b, what)
    else:
        _, fn, xb, n, what, sb = f
        S = re.search(r"<(\w+),", fn).group(1)
        expr = None
        desc = "%s(%s::from_bits(%s), %s) %s" % (fn, S, xb, n, what)
    ce = {"from_verifier": False, "confirmed": True, "found_by": "native sweep of the real code after the verifier rejected the obligation (tools/nativesweep.py)",
          "failing_input": desc, "all_failing_type_pairs": ["%s: %s" % (x[1], x[3] if kind in ("sqrt", "log2") else x[4]) for x in fails[:12]]}
    if expr:
        ce["witness"] = {"exprs": [expr], "expected": ["true"], "helpers": True}
    return ce
