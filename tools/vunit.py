#!/usr/bin/env python3
"""vunit.py <unit> [--mustfail] : render one unit from /repo's current expansion, run Verus on it, print failures (developer tool)."""
import sys, os
sys.path.insert(0, os.path.dirname(os.path.abspath(__file__)))
import driver
p, th, s = driver.expand()
mf = "--mustfail" in sys.argv
try:
    r = driver.run_verus(sys.argv[1], p, mf, "dev")
except driver.Undecided as e:
    print("UNDECIDED", e); sys.exit(2)
print("unit", r["unit"], "verified", r["verified"], "errors", r["errors"], "smt %.1fs wall %.1fs" % (r["smt_s"], r["wall_s"]), r["path"])
for f in r["failures"]:
    print("--", f["class"], f["item"], "|", f["message"], "| line", f["line"], "|", f["text"])
slow = sorted(r["funcs"].items(), key=lambda kv: -kv[1]["ms"])[:5]
print("slowest:", [(k.split("::")[-1], v["ms"]) for k, v in slow])
