"""Counterexample search for a failed obligation (DESIGN.md §3.6 step 2).  Best effort; never the deciding step."""


def search(pid, fl, repo, work, root, log):
    return None
