#!/usr/bin/env python3
"""print the path of the macro expansion of the current /repo tree (refreshing the cache if needed)"""
import sys, os
sys.path.insert(0, os.path.dirname(os.path.abspath(__file__)))
import driver
print(driver.expand()[0])
