"""Property -> units / harnesses table (DESIGN.md §4, §5).  The driver reads only this."""

COMMON_TRUST = [
    "rustc nightly macro expander and pretty-printer (-Zunpretty=expanded) reproduce the crate's code",
    "rewrite rules R1-R16 of tools/rxtract.py (DESIGN.md §3.1, §11.1) preserve behaviour",
    "Verus 0.2026.09.13 + bundled Z3; Kani 0.68 / CBMC 6.11 + CaDiCaL",
    "typenum meaning (R6): Uk::U32 == k, LeEqUk bounds Frac::U32 <= k",
]
COMMON_ASSUMPTIONS = [
    "machine arithmetic is bounded in both back ends; only specifications use unbounded int",
    "serde / az / f16 feature code is not built and not covered",
    "Kani compiles /repo with its own pinned nightly toolchain, not the repository's stable toolchain",
]


def owners(props):
    """'C01:functional C11:panic' -> {'C01': ['functional'], 'C11': ['panic']}"""
    out = {}
    for tok in (props or "").split():
        if ":" in tok:
            p, c = tok.split(":")
        else:
            p, c = tok, "all"
        out.setdefault(p, []).append(c)
    return out


def _mods(prefix, mods, names):
    return ["%s::%s::%s" % (prefix, m, n) for m in mods for n in names]


TFH = ["tofixed::check_tfh_%s" % t for t in ("i8", "i16", "i32", "i64", "i128", "u8", "u16", "u32", "u64", "u128")] + ["tofixed::cover_tfh"]
FORMS = ["mul_forms", "div_forms", "add_sub_neg_forms", "mul_div_int_forms"]
REM = ["rem_forms", "rem_int_forms", "div_euclid_forms", "div_euclid_int_forms"]
CMPX = ["cmp8::" + n for n in ("derived_ops", "x_i8f0_u16f0", "x_i16f3_u8f8", "x_i32f16_u32f0", "x_i8f2_i32f31", "x_u64f0_i8f7",
                                "x_i64f20_u16f16", "x_i32f0_u64f32", "x_i128f0_u128f0", "x_i128f127_i8f0", "same_type_eq_ord")]
CMPINT = ["cmp8::" + n for n in ("i8_vs_int_i8", "i8_vs_int_u8", "u8_vs_int_i16", "i8_vs_int_u64", "u8_vs_int_i128", "i8_vs_int_usize", "u8_vs_int_isize")]
CONVINT = ["conv8::" + n for n in ("i8f_i8", "i8f_u8", "u8f_i8", "u8f_u16", "i8f_i32", "u8f_i64", "i8f_u128", "i8f_i128", "u8f_usize", "i8f_isize", "i8f_bool", "u8f_bool")]
CONVX = ["conv8::" + n for n in ("x_i32f16_i8f4", "x_u8f8_i64f40", "x_i64f60_u16f2", "x_i16f0_u64f48", "x_u32f31_i32f31", "x_i8f7_u8f7", "from_impls", "lossy_from_impls")]
L9 = ["l%d" % i for i in range(9)]
F9 = ["f%d" % i for i in range(9)]
S9 = ["s%d" % i for i in range(9)]

PROPERTIES = {
    "C01": {
        "level": "proof",
        "verus_units": ["arith_widen", "arith128", "widediv", "fracops"],
        "kani": _mods("arith8", ["h_i8", "h_u8"], ["mul_overflow_all_fracs", "div_overflow_all_fracs"])
                + ["widediv::div_rem_from_u8", "widediv::div_rem_from_i8", "widediv::div_rem_from_i8_min_by_minus_one"],
        "explanation": "mul_overflow/div_overflow of the 8..64-bit primitives verified (Verus) against R_mul/R_div with symbolic frac_nbits; "
                       "Kani twins on the 8-bit instantiation",
        "not_covered": ["the u8..u64 instances of wide_div.rs (not used by the library's arithmetic) are covered by the 8-bit Kani twins only; the 128-bit instance is proved in unit widediv"],
    },
    "C02": {
        "level": "proof",
        "verus_units": ["arith_widen", "arith128", "widediv", "nofrac", "fracops"],
        "kani": _mods("arith8", ["i4f4", "i0f8", "u4f4", "u0f8"], FORMS) + ["arith8::abs_forms_i8"],
        "kani_thorough": _mods("arith8", ["i8f0", "u8f0"], FORMS),
        "explanation": "neg/abs/add/sub/mul_int/div_int in the four overflow forms verified for all ten families (Verus, unit nofrac); "
                       "mul/div helpers (unit arith_widen); the mul/div forms of fixed_frac! are confirmed by Kani twins on 8-bit layouts",
        "not_covered": [],
    },
    "C03": {
        "level": "proof",
        "verus_units": ["cmp@*", "cmpfloat@*", "cmpfloatrev@*", "cmpint@*", "cmpintrev@*"],
        "kani": TFH + _mods("cmp8", ["l0", "l4", "l8"], ["i8_vs_i8", "i8_vs_u8", "u8_vs_u8"]) + CMPX + CMPINT
                + _mods("cmp8", ["f4"], ["i8_vs_f32", "u8_vs_f32", "i8_vs_f64", "u8_vs_f64"])
                + ["cmp8::float_derived_ops", "cmp8::i32f0_vs_f32", "float::check_kind_f32", "float::check_kind_f64"],
        "kani_thorough": _mods("cmp8", [l for l in L9 if l not in ("l0", "l4", "l8")], ["i8_vs_i8", "i8_vs_u8", "u8_vs_u8"])
                + _mods("cmp8", [f for f in F9 if f != "f4"], ["i8_vs_f32", "u8_vs_f32", "i8_vs_f64", "u8_vs_f64"]),
        "explanation": "Verus, every Frac symbolic: `Ord::cmp` of the ten families (fixed_cmp_all!), fixed_cmp_fixed (eq, partial_cmp, lt, le, gt, ge) for all 100 (lhs family, rhs family) pairs, i.e. every "
                       "ordered pair of the 507 layouts; fixed_cmp_float for the ten families against f32 and f64 in both directions; fixed_cmp_int "
                       "for the ten families against the twelve integer types in both directions — all against the exact ordering of the values, "
                       "on top of the to_fixed_helper / to_float_kind contracts, which Kani discharges as function contracts (all source types, all "
                       "507 destination layouts, all float bit patterns); the macro bodies additionally on every pair of 8-bit layouts (Kani)",
        "bounded_parts": [],
        "assumptions": ["Verus rejects mutually dependent trait impls: each direction (X op Y / Y op X) is proved in its own rendering and assumes the other "
                        "(cmp@F with the reverse pairs, cmpfloat/cmpfloatrev, cmpint/cmpintrev); every assumed direction is proved in the sibling unit",
                        "a float is seen through uninterpreted nan/inf/neg/xx/dir whose meaning is the Kani contract of to_float_kind; "
                        "axiom ax_nearest restates that contract (xx is within 1/2 of the exact value num / den scaled by 2^fd, dir = cmp(xx, exact)); lemma_ordf_exact then PROVES that the spec of the comparison, `then(cmp(b, xx), dir)`, is the exact ordering of b * 2^-fd and num / den"],
    },
    "C04": {
        "level": "proof",
        "verus_units": ["convert", "fromfixed@*", "intconv"],
        "kani": TFH + _mods("conv8", ["s0", "s4", "s8"], ["i8_to_i8", "i8_to_u8", "u8_to_i8", "u8_to_u8"]) + CONVINT + CONVX,
        "kani_thorough": _mods("conv8", [x for x in S9 if x not in ("s0", "s4", "s8")], ["i8_to_i8", "i8_to_u8", "u8_to_i8", "u8_to_u8"]),
        "explanation": "`impl FromFixed for <family>` (from_fixed, checked_, saturating_, wrapping_, overflowing_from_fixed) verified by Verus for all ten "
                       "destination families with a symbolic Frac, generic over EVERY source type, on top of the to_fixed_helper contract; unit intconv: "
                       "ToFixed / FromFixed of the twelve integer types and bool, ToFixed of the ten families, to_repr_fixed / from_repr_fixed / IntRepr, "
                       "from_num / to_num and their policies, signum, and the bodies of 260 From / LossyFrom impls of convert.rs (each re-homed as a free "
                       "function under its translated where-clause); the typenum bounds of all 371 From / LossyFrom impl headers (unit convert); "
                       "to_fixed_helper under contract for all layouts (Kani); the policies additionally bit-precisely on all pairs of 8-bit layouts",
        "bounded_parts": ["From / LossyFrom bodies that are `into()` delegations, involve floats or bool, or are the identity (111 impls): Kani instances only"],
        "assumptions": ["64-bit target: isize / usize are represented by FixedI64<U0> / FixedU64<U0> (`global size_of usize == 8`)",
                        "R13: Verus forbids the trait cycle Fixed: FromFixed; the generic bound `F: Fixed` of the real ToFixed signatures is widened to `F: Fixed + FromFixed`",
                        "lossless primitive `From` conversions that vstd does not specify (identity, unsigned -> wider signed) are an axiom (specs/primfrom.rs)"],
    },
    "C05": {
        "level": "proof",
        "verus_units": ["fromfloat@*", "floatglue"],
        "kani": ["float::check_to_f32", "float::check_to_f64", "float::check_kind_f32", "float::check_kind_f64",
                 "tofixed::check_tfh_i32", "tofixed::check_tfh_i64", "tofixed::cover_tfh",
                 "floatglue::wrapping_is_overflowing_value",
                 "floatglue::nan_panics_in_saturating", "floatglue::nan_panics_in_wrapping", "floatglue::inf_panics_in_overflowing",
                 "floatglue::i8_to_float", "floatglue::u8_to_float", "floatglue::u128_to_float", "floatglue::i64_to_float"]
                + _mods("floatglue", ["g%d" % i for i in range(9)], ["i8_from_f32", "u8_from_f32", "i8_from_f64", "u8_from_f64"]),
        "explanation": "from_to_float_helper equals the IEEE-754 round-to-nearest-even encoder bit for bit, and to_float_kind equals the exact "
                       "rounding of the decoded float, for every bit pattern and all 507 layouts (Kani function contracts, symbolic layout); on top of "
                       "them Verus proves the policy glue for every fixed-point type: private_{saturating,overflowing}_from_float_helper of the ten "
                       "families (unit fromfloat) and `impl ToFixed for f32/f64`, `impl FromFixed for f32/f64` generic over F (unit floatglue); "
                       "Kani re-checks the glue end to end through the 8-bit families (all layouts, every float bit pattern)",
        "bounded_parts": [],
        "assumptions": ["the Verus units see a float through uninterpreted nan/inf/neg/xx/of_fixed; their meaning is fixed by the Kani contracts of the real helpers"],
    },
    "C06": {
        "level": "proof",
        "verus_units": ["round@*", "nofrac"],
        "kani_thorough": ["round8::i8f::rounding_all_layouts", "round8::u8f::rounding_all_layouts"],
        "explanation": "INT_MASK/FRAC_MASK/INT_LSB/FRAC_MSB, int, frac, round_to_zero and the 4 x 5 rounding forms verified (Verus) for all ten "
                       "families with a symbolic Frac against floor/ceil/round/ties-to-even/to-zero over unbounded integers",
        "assumptions": ["callee contracts of the no-frac methods are assumed in unit round and proved in unit nofrac; "
                        "`frac() == 0` uses the exact-comparison contract of PartialEq<Bits> (discharged for 8-bit by kani cmp8::*_vs_int_*)"],
    },
    "C07": {
        "level": "proof",
        "verus_units": ["nofrac", "remint@*", "diveuclid@*"],
        "kani": _mods("rem8", ["i4f4", "i1f7", "u4f4"], REM) + ["rem8::div_euclid_region_reachable"],
        "kani_thorough": _mods("rem8", ["i0f8", "i8f0", "i6f2", "u0f8", "u8f0", "u1f7"], REM),
        "explanation": "Verus, all ten families, symbolic Frac: checked_rem / checked_rem_euclid / rem_euclid / % (unit nofrac); for a primitive-integer "
                       "divisor n (the value n, i.e. the possibly unrepresentable pattern n * 2^f): checked_rem_int, `fixed % integer`, wrapping_ / "
                       "overflowing_rem_int, overflowing_ / wrapping_ / plain rem_euclid_int — for the signed families the bit-level computation "
                       "(wrapping_abs, shift, mask, or) is proved equal to a mod |n * 2^f| reduced modulo 2^w with the exact overflow flag (unit remint); "
                       "div_euclid / checked_ / wrapping_ / overflowing_div_euclid with a fixed-point divisor and their _int forms with an integer divisor (unit diveuclid): for the unsigned families "
                       "unconditionally, for the signed families OUTSIDE the region of the known finding F-C07-div-euclid (plain quotient representable, "
                       "correction constant representable), where the result is the Euclidean quotient reduced modulo 2^w with the exact overflow flag; "
                       "Kani re-checks all forms on 8-bit layouts outside that region and shows the region reachable",
        "bounded_parts": ["saturating_div_euclid (zero-argument closure in unwrap_or_else) is under a Verus contract at every width since session 4 (unit diveuclid: the clamp of the Euclidean quotient; unsigned unconditionally, signed outside the region "
                          "of the known finding); the signed checked_rem_euclid_int (closure inside Option::map) is now under a Verus contract at every width (unit remint: Some(r) exactly when the "
                          "Euclidean remainder fits, r exact; the closure carries a ghost contract through the `closure` directive - annotations only); "
                          "inside the region of F-C07-div-euclid the signed Euclidean-division forms are not under a Verus contract"],
        "assumptions": ["R15: the non-short-circuit `overflow | overflow2` on two bool locals in overflowing_div_euclid is rendered as `||` (Verus has no `|` on bool)"],
    },
    "C10": {
        "level": "proof",
        "kani": ["codec::codec_%s" % t for t in ("i8", "u8", "i16", "u16", "i32", "u32", "i64", "u64", "i128", "u128")] + ["codec::codec_frac_independent"]
                + ["codec::codec_%s_%s" % (t, f) for t in ("i8", "u8", "i16", "u16", "i32", "u32", "i64", "u64", "i128", "u128") for f in ("f0", "fw")],
        "explanation": "the real parity-scale-codec derive on three aliases per family (Frac = 0, Frac = width, one Frac that is not a multiple of 8): encode == to_le_bytes == encoding of the bits, "
                       "max_encoded_len == width/8, decode round trip consuming the input, every shorter input fails, byte views inverse - through the inherent methods and through the `Fixed` trait "
                       "(to_/from_{le,be,ne}_bytes, to_bits / from_bits); all bit patterns",
        "not_covered": ["Wrapping<F> has no Encode/Decode impl in this crate; serde is feature-gated and not built"],
    },
    "C11": {
        "level": "proof",
        "must_fail_quick": False,     # the vacuity twins of these units run under the property that owns each unit (and in C11 thorough)
        "verus_units": ["arith_widen", "arith128", "widediv", "nofrac", "fracops", "round@*", "transc", "log2inner", "sqrtacc", "powiacc", "leaves", "decbin", "decbin128", "parsetop", "digitsint", "tokeniser", "decfrac", "powfrac", "parsepolicy@*", "fmttop", "fmtdigits", "fmtround", "cmp@*", "fromfixed@*", "fromfloat@*", "wrapping", "traitfwd@*", "intconv", "floatglue", "trig", "cmpfloat@*", "cmpfloatrev@*", "cmpint@*", "cmpintrev@*", "bitops@*", "remint@*", "diveuclid@*"],
        "kani": [{"harness": h, "classes": ["panic"]} for h in
                 _mods("arith8", ["i4f4", "i0f8", "u4f4", "u0f8"], FORMS) + ["arith8::abs_forms_i8"] + TFH
                 + ["float::check_to_f32", "float::check_to_f64", "float::check_kind_f32", "float::check_kind_f64"]
                 + _mods("rem8", ["i4f4", "i1f7", "u4f4"], REM) + CONVX + ["conv8::i8f_i8", "conv8::u8f_u16", "conv8::i8f_bool", "conv8::u8f_bool", "conv8::s4::i8_to_u8", "conv8::s4::u8_to_i8"]
                 + _mods("wrap8", ["i4f4", "u0f8"], ["arith_ops", "bit_and_shift_ops", "rounding_and_conversion"])
                 + ["wrap8::fold_i1f7", "wrap8::fold_i0f8", "wrap8::fold_u0f8"]      # Sum / Product incl. the empty fold on types that cannot hold 1 (seed C11-F)
                 + ["transc::exp_i9f23", "transc::sin_i9f23"]],
        "explanation": "Profiles differ only through overflow / shift-amount checks and debug assertions.  Both back ends verify under the "
                       "checking semantics on the dev-profile expansion: every such site inside a function under contract is a panic-class "
                       "obligation; when all are discharged under the function's precondition no check can fire, so the unchecked build "
                       "computes the same value.  This check owns ONLY the panic-class obligations of the listed units / harnesses.",
        "scan_uncovered": True,
    },
    "C08": {
        "level": "proof",
        "verus_units": ["leaves", "decbin", "decbin128", "parsetop", "digitsint", "tokeniser", "decfrac", "powfrac", "parsepolicy@*"],
        "kani": ["parse::parse_u8_hex", "parse::parse_u8_oct", "parse::parse_u8_bin", "parse::parse_i8_hex", "parse::parse_error_kinds",
                 "parse::parse_u8_dec", "parse::parse_i8_dec", "parse::policy_forms_u4f4_dec", "parse::policy_forms_i4f4_hex"],
        "kani_thorough": ["parse::policy_forms_i4f4_dec", "parse::policy_forms_u4f4_oct", {"harness": "parse::parse_u8_dec_long", "timeout": 9000}, {"harness": "parse::parse_i8_dec_long", "timeout": 9000}],
        "explanation": "TWO LAYERS.  (1) Verus, all inputs, every width: the width-specific functions of the parser - `dec_to_bin` of u8..u64 and of u128 "
                       "(decimal fraction numerator -> nbits binary places, correctly rounded ties-to-even in Round::Nearest; units decbin, decbin128), `mul_hi_lo`, "
                       "`div_tie` - and the whole per-width recombination layer of `impl_from_str!` (unit parsetop: from_str_iN / from_str_uN / get_int_fracN / "
                       "get_intN / get_fracN for N = 8..128 incl. their half-width delegation, `frac_is_half`): for every (int_nbits, frac_nbits) with int + frac = N "
                       "the result is wrap(+-A) with the overflow flag !fits(+-A), where A = ival * 2^f + fround + [f == 0, ival odd, fraction exactly one half] "
                       "is the literal's correctly rounded magnitude (ival = the value of the integer digits, a defined function; fround = the rounded fraction: "
                       "a DEFINED function for every radix, round-half-even(0.d1..dn * 2^nbits): frac_rne for radix 10, frac_pow2 for radix 2 / 8 / 16); the generic DECIMAL FRACTION parser "
                       "dec_str_frac_to_bin (unit decfrac, generic over the result type, R20): for every trimmed digit string of any length it returns exactly frac_rne "
                       "(None iff that is 2^nbits), including the truncation to the digits the type can hold, the digit-by-digit comparison against the two candidates' "
                       "boundary and the tie / odd-floor cases; parse_is_short of all five DecToBin impls; the radix 2 / 8 / 16 FRACTION parsers bin / oct / hex _str_frac_to_bin (unit powfrac, generic over the "
                       "result type, R21): exactly frac_pow2 (None iff that is 2^nbits) - the digit at which the bits run out split into kept bits, half bit and sticky bits "
                       "(bit-vector lemma per radix and remaining-bit count), the sticky contribution of the digits after it (non-zero because the fraction is trimmed), "
                       "the odd-accumulator tie case and the final range check; and the four generic INTEGER digit loops dec / bin / oct / hex _str_int_to_bin with unchecked_hex_digit (unit digitsint, generic "
                       "over the result type, R20): value of the digits modulo 2^W with the exact overflow flag, including the more-digits-than-bits truncation "
                       "path that the bounded harnesses never reach for decimal; and the tokeniser parse_bounds (unit tokeniser, R21) against the DECLARATIVE literal grammar of specs/grammar.rs "
                       "(literal := [sign] digit* [. digit*] with at least one digit; the first offending byte decides the error): for EVERY byte string and radix it "
                       "never panics (all slice bounds proved), returns Err with exactly the grammar's error kind (InvalidDigit / TooManyPoints / NoDigits) for the strings outside "
                       "the grammar, and otherwise the sign, the integer digits with leading zeros trimmed and the fraction digits with trailing zeros trimmed; the "
                       "contracts of from_str_uN / from_str_iN in unit parsetop are therefore END TO END: byte string -> error kind, or wrapped value and overflow flag of the correctly rounded literal.  (2) BOUNDED, Kani (an independent cross-check of layer (1), and the only decision for the policy forms): the whole parser run for real in from_str_u8 / "
                       "from_str_i8 on EVERY byte string of at most 9 bytes (radix 2, 8, 16) resp. 6 bytes quick / 7 bytes thorough (radix 10), all nine 8-bit "
                       "layouts symbolic, against the exactly rounded value of the literal (ties to even), the overflow flag, the wrapped value and the error "
                       "classes of a grammar written independently of the tokeniser; complete within the bound, loops closed by unwinding assertions; "
                       "the policy forms of the public API (plain: overflow error; saturating: the bound on the literal's side; wrapping: the wrapped value) against the "
                       "overflowing form on every ASCII string of at most 4 bytes, I4F4 / U4F4, radix 10 / 16 (8 in thorough)",
        "bounded_parts": ["nothing of the parser is decided by a bounded check any more: `impl FromStr for F :: from_str` is re-homed (R11, gen= / err=) and proved in unit parsepolicy as well; the Kani harnesses "
                          "(8-bit layouts, strings of at most 9 bytes; policy forms: I4F4 / U4F4, at most 4 bytes) are an independent cross-check with a separately written oracle and the counterexample generator, never counted as the proof.  The policy forms are proved in unit parsepolicy@<family> for all ten families (R24: tuple-pattern closures): FromStrRadix::from_str_radix / "
                          "saturating_ / wrapping_ / overflowing_from_str_radix and the fifteen inherent forwarders of macros_from_to.rs against pol_checked / pol_saturating / pol_wrapping / pol_overflowing of specs/parsepolicy.rs "
                          "(value in range or Overflow error; clamp to the bound on the literal's side; value mod 2^W; (value mod 2^W, flag iff out of range); any other string: the error kind of its first offending byte), "
                          "on the contract of from_str_iN / from_str_uN proved in unit parsetop (one text, contracts/fromstr_top.inc); the Kani policy harnesses remain as cross-check and counterexample generator"],
        "assumptions": ["unit parsepolicy: str::as_bytes is vstd's specification (the bytes of the string); str::starts_with is assumed to be a function of the string and the pattern, and for the pattern '-' to be "
                        "'the first byte is 0x2D' (axiom ax_starts_minus: a UTF-8 fact about core); inherent from_bits / min_value / max_value / INT_NBITS / FRAC_NBITS are assumed with the contracts proved in units nofrac / round",
                        "unit parsetop: the contracts of the four integer digit loops, of the four fraction parsers and of parse_bounds are declared there (external_body, hand-declared signatures generic over the "
                        "result type) with the statements proved in units digitsint / decfrac / powfrac / tokeniser; "
                        "unit decfrac: the contracts of DecToBin::dec_to_bin / parse_is_short and of dec_str_int_to_bin are assumed with the statements proved in units decbin / decbin128 / digitsint; "
                        "IntHelper::MSB is a literal tied to the source text by //@require_source",
                        "unit digitsint: trait-level contracts of the generic unsigned IntHelper (overflowing_mul / overflowing_add, `<<` dropping the shifted-out bits, checked `+` / `-`, "
                        "comparison by value, From<u8>) are the prelude's statements about the primitive unsigned types, assumed for the generic parameter"],
    },
    "C09": {
        "level": "other",
        "verus_units": ["leaves", "fmttop", "fmtdigits", "fmtround"],
        "kani": ["display::display_default", "display::display_precision", "display::display_plus", "display::display_lower_hex", "display::display_binary", "display::display_width_precision", "display::display_lower_hex_u16"],
        "kani_thorough": ["display::display_sign", "display::display_zero_pad", "display::display_width", "display::display_width_precision_left", "display::display_width_precision_zero", "display::display_upper_hex",
                          "display::display_octal", "display::display_alt_hex", "display::display_octal_u16", {"harness": "display::display_default_u16", "timeout": 3000}, "display::display_lower_hex_u32"],
        "explanation": "BOUNDED: the real fmt_dec / fmt_radix2 (run-time frac_nbits through the hook new-types) on every 8-bit value and all nine "
                       "layouts: `{}` is the correct rounding at the digits shown and lies within half an ulp (round trip); `{:.p}` for p <= 9 is the "
                       "exactly rounded expansion; sign / + / zero padding / width only add prefix and padding; "
                       "radix 2, 8, 16 outputs are exact; and on every 16-bit value and all 17 layouts (the per-width code of impl_radix_helper! that the 8-bit "
                       "instance never runs: u16 delegates to the u8 helper when fewer than 8 bits are in use): `{:x}` exact (quick), `{:o}` exact and `{}` "
                       "well formed and within half an ulp, i.e. round-trip safe (thorough); `{:x}` of every 32-bit value x all 33 layouts (thorough).  "
                       "Verus, ALL widths, all values, every layout, every precision (units leaves, fmtdigits, fmttop): the digit generation of the formatter is under contract from the bit pattern to the "
                       "buffer handed to Buffer::finish.  Unit fmtdigits: the four digit writers of impl_radix_helper! for u8 .. u128 (R22: `iter_mut` loops over buffer sub-slices as index loops, R23: `mut self`), "
                       "Buffer::int / Buffer::frac, Radix::max / digit_bits, lower_byte - write_int_dec / write_int write exactly the digits of the integer part (value of the digit string == the integer, "
                       "the debug assertions `self != 0` / `self == 0` cannot fire); write_frac_dec / write_frac write the first m digits of the fraction with x * r^m == digits * 2^W + rem and return the order of "
                       "the EXACT remainder against one half; with auto_prec the early stop happens only where the shown digits, rounded to nearest, are strictly within half a unit of the last fractional bit "
                       "(the scaled half-unit `tie` is exact in every iteration but the last, where the wrapped value is harmless); the half-width delegation is verified against the half type's contract.  "
                       "Unit fmttop: fmt_dec<U> / fmt_radix2<U> establish the writers' preconditions from the split of the bit pattern (leading_zeros / trailing_zeros, 10^(clog(i)-1) < 2^i <= 10^clog(i) "
                       "checked by computation for i <= 128) and assert END TO END, in front of Buffer::finish: integer digits == abs >> f, fraction digits == floor(frac * r^m / 2^W), order flag == "
                       "cmp(exact remainder, 1/2), and for the default format |shown - value| < half a unit of the last fractional bit (what makes the output parse back, given C08); "
                       "plus Buffer::new, Buffer::set_len: every shift amount in range, no digit count overflows, int_digits + frac_digits <= W <= 128, the buffer-length assertion cannot fire.  "
                       "Unit fmtround (width-independent code, one proof for every type, radix and digit count): Buffer::round_and_trim under its VALUE contract - with r = max + 1 and the digit string read as one number, "
                       "new * r^(dropped fraction digits) == old + 1 exactly when the exact remainder is above one half, or equal to one half with an odd last digit (ties to even), else == old; structurally: the carry stops at the "
                       "last digit below max, everything after it was max and is zero, it passes the radix point and can reach the spare leading slot (which finish_req keeps zero, so the loop always ends by `break`), the zeroed "
                       "fraction digits are dropped, otherwise only zero digits are trimmed; nothing else in the 130-byte buffer changes and the debug assertion at the radix point cannot fire; Buffer::encode_digits (every digit "
                       "becomes its ASCII character, the radix point stays); Buffer::finish (the three calls: round_and_trim's precondition is finish_req, which fmt_dec / fmt_radix2 are verified to establish in unit fmttop, and the "
                       "buffer handed to pad_and_print holds ASCII digits only); Radix::max, Radix::prefix",
        "bounded_parts": ["BOUNDED (Kani, 8-bit layouts: all formats and flags; 16-bit layouts: `{:x}`, `{:o}`, `{}`; precision <= 9; width <= 12; one flag at a time; core::str::from_utf8 stubbed by its unchecked variant): "
                          "Buffer::pad_and_print (core::fmt: sign, prefix, width / fill / alignment, zero padding up to a requested precision) - declared external in unit fmtround with the precondition that finish establishes "
                          "(a well-formed buffer of ASCII digits with the radix point in place), i.e. the step from the rounded, encoded digit buffer to the printed string is decided by the bounded harnesses only; "
                          "they also re-check the whole chain (digits, rounding, encoding) independently on those layouts"],
        "assumptions": ["unit fmttop: trait-level contracts of the generic unsigned FmtHelper - `<<` / `>>` of the primitive types, leading_zeros (W - lz = number of significant bits), "
                        "trailing_zeros (zero has W; otherwise the index of the lowest set bit) - are statements about core's primitive integer methods, assumed; core::cmp::min and "
                        "Formatter::precision (any Option<usize>) are assume_specification; ceil_log10_2_times is declared with the contract proved in unit leaves; the four digit-writer contracts "
                        "(contracts/fmthelper.inc) are assumed in unit fmttop for the generic U and proved in unit fmtdigits for u8 .. u128 (one text)",
                        "unit fmtround: pad_and_print (core::fmt) is external; the derived PartialEq of the fieldless enum Radix is declared as equality of the variants; <Ordering as PartialEq>::eq is assume_specification",
                        "unit fmtdigits: Mul10::mul10_assign is declared with the contract proved in unit leaves; IntHelper::MSB is a literal tied to the source text by //@require_source; wrapping_neg is assume_specification"],
    },
    "C12": {
        "level": "proof",
        "verus_units": ["transc", "log2inner", "fracops", "nofrac", "trig", "arith_widen", "arith128", "widediv"],
        "kani": ["transc::const_values", "transc::exp_i9f23", "transc::sin_i9f23", "transc::cos_i9f23", "transc::cos_i32f32"],
        "kani_thorough": ["transc::sqrt_i9f23", "transc::log2_i9f23", "transc::ln_i9f23", "transc::sqrt_u9f23", "transc::tan_i9f23",
                          "transc::sin_i32f32", "transc::sin_i64f64", "transc::exp_i32f32", "transc::tan_i32f32"],
        "explanation": "sqrt (Newton-loop invariant), exp, pow, powi, ln, log2 (unit transc) and sin, cos, cordic_rotation (unit trig: exact range reduction, folding into "
                       "[-pi/2, pi/2], cos for |x| <= 200; CORDIC with the invariant max(|x|, |y|) <= cbound(i) < 8 and |z| <= 2 + i, R18) verified (Verus) as written, generic over every supported type, against trait-level "
                       "contracts of Fixed: no panic-class obligation remains, Err for non-positive logarithms; the conventions 0^y, x^0, x^1 of "
                       "pow / powi are postconditions.  log2_inner and rs (unit log2inner, R16) verified generic over every supported type: both loops "
                       "with invariants (integer-part loop: x < 2^(w-1-count) + 1; fraction loop: 1 <= x <= 2, accumulator below (count+1) 2^i), no "
                       "panic-class obligation left, result >= 0 — the contract log2 / ln / pow rely on.  tan (its divisor 1 + cos 2x is non-zero only by an accuracy argument) by "
                       "Kani on I9F23 (the stated domain); Kani re-checks sin / cos / sqrt / log2 / ln / exp bit-precisely on I9F23 and sin / cos / exp on I32F32 / I64F64",
        "not_covered": ["tan for types other than I9F23 (quick) and I32F32 (thorough)"],
        "assumptions": ["trait-level contracts of the generic Fixed / FixedSigned: the METHOD contracts are copied at render time from contracts/fixed_trait.inc, the text that unit "
                        "traitfwd@<family> proves for each family's `impl Fixed` forwarder; the OPERATOR axioms (ax_shr, ax_shl, ax_and_lsb, ax_mul_assign, trig's ax_ops with +=/-=, ax_bits, ax_neg) "
                        "are proved per family, from the operator contracts, as implementations of link traits whose statements are copied from the generic trait "
                        "(units bitops@<family>, fracops, nofrac); what stays assumed for the generic parameter: from_num / overflowing_to_num (proved per family in unit intconv), "
                        "same-type comparison ax_cmp (unit cmp), and ax_bits_ops about the primitive `Bits` type",
                        "axioms ax_from_const, ax_from_src, ax_cmp_const (conversions from the I9F23 constants are lossless, cross-type comparison is exact: C04 / C03)",
                        "log2_inner contract (result >= 0 for operand >= 1) is assumed in unit transc and proved in unit log2inner (one contract text, contracts/log2inner.inc)",
                        "axiom ax_bits_ops: D::Bits is the primitive integer behind D, its `+=`, `<<=`, `|=` have Rust's checked semantics (same trust as the prelude specs of core integer methods)",
                        "R16: `for _i in (0..n).rev()` with an unused loop variable is rendered `for _i in 0..n`; R18: `for (a, i) in TABLE.iter().cloned().zip(0..)` is rendered as an "
                        "indexed loop over the table with a counter i; R19: the table is an `exec const` (initialiser verbatim); the table VALUES are not used by the proof "
                        "(any U0F128 angle is at most one after lossy_from)"],
    },
    "C13": {
        "level": "proof",
        "verus_units": ["sqrtacc"],
        "explanation": "Verus, generic over every supported pair (S, D): the real sqrt is verified against the integer bracket "
                       "(r - 4)^2 <= X * 2^F <= (r + 4)^2 (r, X bit patterns of the result and of the operand in D, i.e. |r - sqrt(x)| <= 4 ulp), "
                       "sqrt(0) == 0 and sqrt(1) == 1 exactly, and Err only for a negative operand or an operand below one whose reciprocal is not "
                       "representable.  Proof: loop invariant `l >= isqrt(N)` and `(l - isqrt(N)) * 2^i <= l_0 or l - isqrt(N) <= 1` (the distance to "
                       "the integer root at least halves per step), so after frac_nbits + int_nbits steps l is isqrt(N) or isqrt(N) + 1; the "
                       "reciprocal path is carried through floor(2^2F / x) and floor(2^2F / l) by a bracket lemma (nonlinear arithmetic, no admit)",
        "not_covered": ["no SAT twin: a Kani harness asserting the bracket did not finish (I9F23 with 256 symbolic operands: > 50 min; concrete operand "
                        "lists: > 10 GB), so a failed obligation of this unit is reported with no-failing-input-found"],
        "assumptions": ["trait-level contracts of Fixed (checked_div, `/`, `+`, from_num, frac_nbits, int_nbits) are the statements proved for the inherent methods "
                        "in units nofrac / fracops and forwarded in traitfwd",
                        "axioms ax_from_src, ax_cmp_const (From<S> for D is value preserving, comparison with the I9F23 constants is exact: C04 / C03)",
                        "the true square root enters only through the integer bracket (r - 4)^2 <= X * 2^F <= (r + 4)^2, which is equivalent to "
                        "|r - sqrt(X * 2^F)| <= 4 over the reals"],
    },
    "C14": {
        "level": "other",
        "verus_units": ["log2inner", "transc"],
        "explanation": "PARTIAL (level other): the clauses of C14 that a contract can express are proved by Verus on the real generic code, for every supported "
                       "pair (S, D): log2 of an exact power of two is EXACT - log2_inner (unit log2inner): operand = 2^e exactly  ==>  result = (e - f) in units of one, "
                       "by the invariant x = 2^(e - count) of the halving loop (rs halves a power of two exactly) and the early return at x == ONE; log2 (unit transc): "
                       "through the lossless From<S>, for x < 1 through the exact reciprocal 2^(2f) / 2^e and the negation; the SIGN clause - result >= 0 for x >= 1, <= 0 for x <= 1, "
                       "for log2 and for ln (division by the positive constant LOG2_E keeps the sign); the ERROR clause - log2 / ln return Err only for x <= 0 or for "
                       "0 < x < 1 whose reciprocal 1 / x does not fit the destination type, and Ok implies x > 0.  The accuracy clauses compare with log2 x / ln x over the "
                       "reals and are NOT decided",
        "not_covered": ["|r - log2 x| <= 8 ulp and |r - ln x| <= 2^-23 |ln x| + 8 ulp - no contract within reach of Verus or CBMC expresses log2 / ln of a real (DESIGN.md §6); "
                        "a change that only degrades the accuracy of the fractional bits of log2 / ln is not detected by this check"],
        "assumptions": ["trait-level contracts of Fixed (checked_div = truncated quotient, `/`, unary minus, shifts, `*=`) are the statements proved per family in units fracops / bitops / nofrac and linked by the link traits",
                        "axioms ax_from_src (From<S> for D is value preserving), ax_cmp_const (comparison with the I9F23 constants ONE / TWO by value), ax_from_const"],
    },
    "C15": {
        "level": "other",
        "verus_units": ["powiacc", "transc"],
        "explanation": "PARTIAL (level other): the clauses of C15 that a contract can express are proved by Verus on the real generic code, for every supported "
                       "pair (S, D) and every i32 exponent: powi - for n >= 1 the result r satisfies |r * one^(n-1) - X^n| <= (n - 1) * max(one, |X|)^(n-1) "
                       "(bit patterns; stronger than the stated (n + 1) ulp * max(1, |x|)^(n-1)), by the loop invariant D_j = r_j * one^(j-1) - X^j, "
                       "|D_j| <= (j - 1) * A^(j-1); for n < 0 the result is the truncated reciprocal of a value satisfying that bound for |n|; the "
                       "conventions 0^n = 0, x^0 = 1, x^1 = x of powi (unit powiacc) and 0^y = 0, x^0 = 1, x^1 = x of pow (unit transc).  The "
                       "accuracy clauses of exp and pow compare with e^x and x^y over the reals and are NOT decided",
        "not_covered": ["exp: |r - e^x| <= 2^-20 e^x + 64 ulp; pow: the propagated bound - no contract within reach of Verus or CBMC expresses e^x (DESIGN.md §6); "
                        "a change that only degrades the accuracy of exp / pow is not detected by this check"],
        "assumptions": ["trait-level contracts of Fixed (checked_mul = floor of the exact product, checked_div = truncated quotient) are the statements proved in unit fracops and forwarded in traitfwd",
                        "axioms ax_from_src (From<S> for D is value preserving), S::ax_cmp (comparison of values of one type)"],
    },
    "C17": {
        "level": "proof",
        "verus_units": ["transc", "log2inner", "trig"],
        "kani": ["transc::const_values", "transc::exp_i9f23", "transc::sin_i9f23", "transc::cos_i9f23", "transc::cos_i32f32",
                 {"harness": "transc::sin_ticks_i9f23_whole_domain", "unwind_is_violation": True}],
        "kani_thorough": ["transc::sqrt_i9f23", "transc::log2_i9f23", "transc::ln_i9f23", "transc::sqrt_u9f23", "transc::tan_i9f23",
                          "transc::sin_i32f32", "transc::sin_i64f64", "transc::exp_i32f32", "transc::tan_i32f32",
                          {"harness": "transc::sin_ticks_i32f32_whole_domain", "unwind_is_violation": True}],
        "explanation": "Verus (generic over every supported type): sqrt, exp and sin carry a ghost iteration counter (R14) that every loop body "
                       "increments; each loop has an invariant bounding it (for-loops: in step with the loop variable; the two range-reduction "
                       "loops of sin: at most one round each after the exact remainder) and `assert(vticks <= 4 * w + 64)` stands at every exit "
                       "(log2_inner: both loops together at most 2 w + 2, the integer-part loop by a halving invariant); "
                       "while / loop loops get `decreases bound - vticks`.  ln, log2, pow, cos, tan have no loops of their own: their counters add the proved bounds of their callees at the call sites.  Kani: every harness "
                       "reads the hook iteration counter after the call and asserts ticks <= 4 * width + 64 (loops closed by unwinding assertions)",
        "not_covered": ["tan: its bound 54 = sin + cos is proved by Verus for every supported type (unit trig, `props C17:ticks` only - the panic-class obligations of tan's division are NOT owned by that rendering, "
                        "they need the accuracy of cos; Kani decides them on I9F23 / I32F32 under C12); the ghost counter is not part of a callee's contract: a caller adds the callee's proved bound by hand at the call site "
                        "(log2 / ln: 2 w + 2 for log2_inner; pow: ln + exp = 3 w + 2; sin: 25 for cordic_rotation; cos: 27 for sin)"],
    },
    "C18": {
        "level": "proof",
        "verus_units": ["wrapping", "traitfwd@*", "bitops@*", "fracops", "nofrac", "arith_widen", "arith128", "widediv"],
        "verus_units_thorough": ["nofrac", "fracops", "round@*"],
        "kani": _mods("wrap8", ["i4f4", "i0f8", "u4f4", "u0f8"], ["arith_ops", "bit_and_shift_ops", "rounding_and_conversion"])
                + ["wrap8::i4f4::ref_and_assign_forms", "wrap8::u4f4::ref_and_assign_forms"]
                + ["wrap8::signed_only_ops", "wrap8::fold_i4f4", "wrap8::fold_i1f7", "wrap8::fold_i0f8", "wrap8::fold_u0f8", "wrap8::fold_u4f4", "wrap8::parse_forwarders_i4f4"],
        "kani_thorough": ["wrap8::parse_forwarders_u4f4"] + _mods("wrap8", ["i8f0", "u8f0"], ["arith_ops", "bit_and_shift_ops", "rounding_and_conversion"]),
        "explanation": "Verus, generic over F: every operator impl (6 forms each of + - * / %, 6 forms of & | ^, !, unary -, 288 shift impls by the 12 "
                       "primitive integer types) and 32 inherent methods of Wrapping<F> are verified against the trait-level contracts of Fixed "
                       "(exact result modulo 2^w; shift amount reduced modulo the bit width of F); unit traitfwd@<family> proves that each family's "
                       "`impl Fixed/FixedSigned/FixedUnsigned` forwarder meets those trait-level contracts from the inherent-method contracts, and the "
                       "18 integer-right-hand-side impls per family; units nofrac/fracops/round prove the inherent wrapping_* methods.  Kani: the same "
                       "operators on 8-bit layouts end to end, plus sum/product and parsing forwarders",
        "bounded_parts": ["Sum/Product (iterator folds): Kani on 8-bit layouts only, folds over at most 3 elements",
                          "the four parsing forwarders (FromStr::from_str, from_str_binary / _octal / _hex) are under a Verus contract generic over F (unit wrapping, R24 / R25: result == the wrapping parser of F mapped into Wrapping; "
                          "what that parser returns is proved per family in unit parsepolicy); the Kani harness wrap8::parse_forwarders_* (ASCII strings of at most 4 bytes, I4F4 / U4F4) is the counterexample generator and is bounded",
                          "next_power_of_two (Option::unwrap_or_default): Kani wrap8 only"],
        "assumptions": ["trait-level contracts of `Fixed` (contracts/fixed_trait.inc) are assumed by unit wrapping and proved per family by unit traitfwd",
                        "methods whose inherent contract is not mathematical here (count_ones.., rotate_*, wrapping_div_euclid*, wrapping_rem_euclid_int, "
                        "is_power_of_two, `fixed % integer`) are only required to be deterministic functions of their arguments (uninterpreted spec "
                        "functions): for them Verus proves the forwarding, Kani wrap8/rem8 the values",
                        "bit operators and shifts of Wrapping<F> are generic over ANY F with that operator: the postcondition is stated over F's own "
                        "operator spec (vstd *Spec traits); shifts require size_of::<F>() in {1,2,4,8,16}",
                        "#[repr(transparent)] layout of Wrapping<F> (axiom ax_transparent, guarded by a source-text check)",
                        "ToFixed for i32 (the literal type used by signum) is assumed: integer source, exact value wrapped (impl_int!; kani conv8)"],
    },
}
HOOK_COMMITS = ["52f3d97"]
