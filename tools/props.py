"""Property -> units / harnesses table (DESIGN.md §4, §5).  The driver reads only this."""

COMMON_TRUST = [
    "rustc nightly macro expander and pretty-printer (-Zunpretty=expanded) reproduce the crate's code",
    "rewrite rules R1-R12 of tools/rxtract.py (DESIGN.md §3.1) preserve behaviour",
    "Verus 0.2026.09.13 + bundled Z3; Kani 0.68 / CBMC 6.11 + CaDiCaL",
    "typenum meaning (R6): Uk::U32 == k, LeEqUk bounds Frac::U32 <= k",
]
COMMON_ASSUMPTIONS = [
    "machine arithmetic is bounded in both back ends; only specifications use unbounded int",
    "serde / az / f16 feature code is not built and not covered",
]


def owners(props):
    """'C01:functional C11:panic' -> {'C01': ['functional'], 'C11': ['panic']}"""
    out = {}
    for tok in (props or "").split():
        if ":" in tok:
            p, c = tok.split(":")
        else:
            p, c = tok, "all"
        out.setdefault(p, []).append(c)
    return out


PROPERTIES = {
    "C01": {
        "level": "proof",
        "verus_units": ["arith_widen"],
        "explanation": "mul_overflow/div_overflow of the 8..64-bit primitives verified against R_mul/R_div with symbolic frac_nbits",
        "not_covered": [],
    },
}
