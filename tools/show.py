#!/usr/bin/env python3
"""show.py <anchor> [fn ...] : print real functions from the current expansion without attributes/docs."""
import sys, glob, os, re
sys.path.insert(0, os.path.dirname(os.path.abspath(__file__)))
import rxtract
root = os.path.dirname(os.path.dirname(os.path.abspath(__file__)))
idx = rxtract.Index(open(sorted(glob.glob(root + '/.work/expanded-*.rs'))[-1]).read())
anchor = sys.argv[1]
names = sys.argv[2:]
for c in idx.containers(anchor):
    for f in c.children:
        if f.kind in ('fn',) and (not names or f.name in names):
            r = rxtract.Rules()
            print(rxtract.emit(rxtract.rewrite_tokens(idx.toks[f.t0:f.t1 + 1], r, {"rename_int": False})))
            print()
    if not names:
        # also print consts (raw)
        pass
