"""Run Kani harnesses of /verif/kani against the real crate (hooks on).  Filled in with the Kani units."""


class KaniUndecided(Exception):
    pass


def run_harnesses(harnesses, repo, work, root, log):
    return []
