"""Run Kani harnesses of /verif/kani against the real crate (hooks on) and parse the results."""
import fcntl
import filecmp
import resource
import os
import re
import shutil
import subprocess
import time


class KaniUndecided(Exception):
    pass


def prepare(repo, work, root):
    """Materialise the harness crate with a path dependency on `repo` (sources are copied only when changed)."""
    d = os.path.join(work, "kani-crate")
    os.makedirs(os.path.join(d, "src"), exist_ok=True)
    toml = open(os.path.join(root, "kani", "Cargo.toml.in")).read().replace("@REPO@", repo)
    tp = os.path.join(d, "Cargo.toml")
    if not os.path.exists(tp) or open(tp).read() != toml:
        with open(tp, "w") as f:
            f.write(toml)
    lock_src = os.path.join(repo, "Cargo.lock")
    lock_dst = os.path.join(d, "Cargo.lock")
    if not os.path.exists(lock_dst):
        shutil.copy(lock_src, lock_dst)
    srcdir = os.path.join(root, "kani", "src")
    for fn in os.listdir(srcdir):
        a, b = os.path.join(srcdir, fn), os.path.join(d, "src", fn)
        if not os.path.exists(b) or not filecmp.cmp(a, b, shallow=False):
            shutil.copy(a, b)
    for fn in os.listdir(os.path.join(d, "src")):
        if not os.path.exists(os.path.join(srcdir, fn)):
            os.unlink(os.path.join(d, "src", fn))
    return d


def _limit_mem():
    # a runaway SAT instance must not take the machine down: 14 GB address space per process
    lim = 14 * 1024 * 1024 * 1024
    try:
        resource.setrlimit(resource.RLIMIT_AS, (lim, lim))
    except Exception:
        pass


def kani_env(work):
    env = dict(os.environ, CARGO_NET_OFFLINE="true", RUSTFLAGS="--cfg substrate_fixed_verif",
               CARGO_TARGET_DIR=os.path.join(work, "kani-target"))
    return env


def norm_spec(h):
    if isinstance(h, str):
        return {"harness": h}
    return dict(h)


def parse_log(text, names):
    """-> {harness: {status, checks, failed, time_s, failed_checks}}"""
    res = {}
    cur = {}
    buf = {}
    owner = None
    for ln in text.split("\n"):
        m = re.match(r"(?:Thread (\d+): )?Checking harness ([\w:]+)\.\.\.", ln)
        if m:
            cur[m.group(1) or "-"] = m.group(2)
            buf.setdefault(m.group(2), [])
            owner = m.group(2) if m.group(1) is None else None
            continue
        m = re.match(r"Thread (\d+):\s*$", ln)
        if m:
            owner = cur.get(m.group(1))
            continue
        if ln.startswith("Manual Harness Summary") or ln.startswith("Complete - "):
            owner = None
        if owner is not None:
            buf[owner].append(ln)
    for h, b in buf.items():
        t = "\n".join(b)
        st = "UNKNOWN"
        if "VERIFICATION:- SUCCESSFUL" in t:
            st = "SUCCESS"
        elif "VERIFICATION:- FAILED" in t:
            st = "FAILED"
        m = re.search(r"\*\* (\d+) of (\d+) failed", t)
        checks = int(m.group(2)) if m else 0
        nfail = int(m.group(1)) if m else 0
        m = re.search(r"Verification Time: ([0-9.]+)s", t)
        tm = float(m.group(1)) if m else 0.0
        fails = [x for x in b if x.startswith("Failed Checks:") or "Failed Checks" in x]
        # unwinding assertion failures / unsupported constructs mean "not decided", not "violated"
        if st == "FAILED":
            only_unwind = fails and all(("unwinding assertion" in x) for x in fails)
            if only_unwind:
                st = "UNWIND"
            if "unsupported" in t.lower() and not any("assertion failed" in x or "attempt to" in x or "panicked" in x for x in fails):
                st = "UNSUPPORTED"
        # which classes of obligation failed: a panic-class failure is an overflow / shift / debug assertion / unwrap /
        # index / division panic inside the real code; a functional failure is an assertion of the harness oracle
        fclasses = set()
        for x in fails:
            if re.search(r"attempt to|overflow|panicked|unwrap|expect\(|index out of bounds|divide by zero|division by zero|unreachable|debug_assert|remainder with a divisor", x):
                fclasses.add("panic")
            elif "assertion failed" in x or "|" in x:
                fclasses.add("functional")
            else:
                fclasses.add("functional")
        if st == "FAILED" and not fclasses:
            # e.g. a #[kani::should_panic] harness that did not panic: no failed check is listed
            fclasses.add("functional")
            m2 = re.search(r"VERIFICATION:- FAILED[^\n]*", t)
            fails = fails or [m2.group(0) if m2 else "VERIFICATION:- FAILED"]
        cov = re.findall(r"(\d+) of (\d+) cover properties satisfied", t)
        cover_ok = all(a == b2 for a, b2 in cov) if cov else True
        res[h] = {"harness": h, "status": st, "checks": checks, "n_failed": nfail, "time_s": tm,
                  "failed_checks": "\n".join(fails)[:3000], "summary": "\n".join(fails[:3]), "cover_ok": cover_ok,
                  "stubs": re.findall(r"- Stub: (\S+)", t), "failed_classes": sorted(fclasses)}
    for n in names:
        if n not in res:
            res[n] = {"harness": n, "status": "MISSING", "checks": 0, "n_failed": 0, "time_s": 0.0, "failed_checks": "", "summary": ""}
    return res


def run_harnesses(harnesses, repo, work, root, log, jobs=12, timeout=3000, extra=()):
    specs = [norm_spec(h) for h in harnesses]
    if not specs:
        return []
    d = prepare(repo, work, root)
    timeout = max([timeout] + [int(s_["timeout"]) for s_ in specs if s_.get("timeout")])
    cmd = ["cargo", "kani", "-Z", "function-contracts", "-Z", "stubbing", "-j", str(jobs), "--output-format=terse"]
    for e in extra:
        cmd.append(e)
    for s in specs:
        cmd += ["--harness", s["harness"]]
    cmd.append("--exact")
    t0 = time.time()
    # one Kani session at a time: the harness crate, its target directory and the goto binaries are shared
    lockf = open(os.path.join(work, "kani.lock"), "w")
    fcntl.flock(lockf, fcntl.LOCK_EX)
    try:
        d = prepare(repo, work, root)
        try:
            p = subprocess.run(cmd, cwd=d, env=kani_env(work), stdout=subprocess.PIPE, stderr=subprocess.STDOUT, text=True, timeout=timeout, preexec_fn=_limit_mem)
            out = p.stdout
            timed_out = False
        except subprocess.TimeoutExpired as e:
            out = (e.stdout or b"").decode() if isinstance(e.stdout, bytes) else (e.stdout or "")
            timed_out = True
            subprocess.run(["pkill", "cbmc"], check=False)
    finally:
        fcntl.flock(lockf, fcntl.LOCK_UN)
        lockf.close()
    with open(os.path.join(work, "kani-last.log"), "w") as f:
        f.write(out)
    if "error: could not compile" in out or "error[E" in out:
        raise KaniUndecided("the Kani harness crate does not compile against this tree: " +
                            "; ".join(re.findall(r"error(?:\[E\d+\])?: [^\n]*", out)[:3]))
    names = [s["harness"] for s in specs]
    parsed = parse_log(out, names)
    res = []
    for s in specs:
        r = dict(parsed[s["harness"]])
        r["classes"] = s.get("classes", ["functional", "panic"])
        r["cmd"] = "cargo kani -Z function-contracts -Z stubbing --harness <h> (kani/src, path dep on /repo, --cfg substrate_fixed_verif)"
        if timed_out and r["status"] in ("MISSING", "UNKNOWN"):
            r["status"] = "TIMEOUT"
        if r["status"] == "UNWIND" and s.get("unwind_is_violation"):
            # the harness's unwind bound is the property's iteration bound + 2
            r["status"] = "FAILED"
            r["failed_classes"] = ["functional"]
            r["summary"] = "unwinding assertion failed: a loop runs more often than the bound the property allows. " + r.get("summary", "")
        if r["status"] == "SUCCESS" and not r.get("cover_ok", True):
            r["status"] = "COVER-UNSAT"
        res.append(r)
    log("kani: %d harnesses in %.0fs: %s" % (len(res), time.time() - t0,
        ", ".join("%s=%s" % (r["harness"].split("::", 1)[-1], r["status"]) for r in res if r["status"] != "SUCCESS") or "all SUCCESS"))
    return res


def playback(harness, repo, work, root, timeout=1200):
    """Re-run one failing harness with concrete playback; returns list of byte vectors (one per kani::any)."""
    d = prepare(repo, work, root)
    cmd = ["cargo", "kani", "-Z", "function-contracts", "-Z", "stubbing", "-Z", "concrete-playback",
           "--concrete-playback=print", "--output-format=terse", "--harness", harness, "--exact"]
    lockf = open(os.path.join(work, "kani.lock"), "w")
    fcntl.flock(lockf, fcntl.LOCK_EX)
    try:
        p = subprocess.run(cmd, cwd=d, env=kani_env(work), stdout=subprocess.PIPE, stderr=subprocess.STDOUT, text=True, timeout=timeout, preexec_fn=_limit_mem)
    except subprocess.TimeoutExpired:
        return None, ""
    finally:
        fcntl.flock(lockf, fcntl.LOCK_UN)
        lockf.close()
    out = p.stdout
    m = re.search(r"let concrete_vals: Vec<Vec<u8>> = vec!\[(.*?)\];", out, re.S)
    if not m:
        return None, out[-3000:]
    vals = []
    for vm in re.finditer(r"vec!\[([0-9,\s]*)\]", m.group(1)):
        vals.append([int(x) for x in vm.group(1).replace(" ", "").split(",") if x])
    return vals, out[-3000:]
