#!/usr/bin/env python3
"""krun.py <harness-substr-or-name>... : run Kani harnesses (exact names) and print a result table."""
import sys, os, json
sys.path.insert(0, os.path.dirname(os.path.abspath(__file__)))
import kani_run
root = os.path.dirname(os.path.dirname(os.path.abspath(__file__)))
repo = os.environ.get("VERIF_REPO", "/repo")
work = os.environ.get("VERIF_WORK", os.path.join(root, ".work"))
res = kani_run.run_harnesses(sys.argv[1:], repo, work, root, print, jobs=int(os.environ.get("KJOBS", "12")), timeout=int(os.environ.get("KTIMEOUT", "3000")))
for r in res:
    print("%-50s %-10s checks=%-5d %.1fs %s" % (r["harness"], r["status"], r["checks"], r["time_s"], r["summary"][:300].replace("\n", " | ")))
