#!/usr/bin/env python3
"""Short table (as in DESIGN.md 14.3 / 15.4) of the named seeds: seedtable15.py <name>... ; `--write` replaces the marker / existing table of section 15.4."""
import json, os, re, sys
root = os.path.dirname(os.path.dirname(os.path.abspath(__file__)))
names = [a for a in sys.argv[1:] if not a.startswith("--")]
rows = []
for name in names:
    mp = os.path.join(root, "seeded", name, "meta.json")
    if not os.path.exists(mp):
        continue
    m = json.load(open(mp))
    what = re.sub(r"\s+", " ", m.get("summary") or m.get("needs_to_manifest", ""))[:260].replace("|", "/")
    res = []
    for pid, r in sorted(m.get("check_results", {}).items()):
        fails = [re.sub(r"^OBLIGATION ", "", f).replace(" FAILED", "") for f in r.get("failed_obligations", [])]
        first = fails[0][:100].replace("|", "/") if fails else ""
        ce = any(l.startswith("VIOLATION") and not l.endswith("no-failing-input-found") for l in r.get("lines", []))
        verdict = {0: "MISSED (exit 0)", 1: "VIOLATION" + (" with replayed input" if ce else ", no-failing-input-found"), 2: "UNDECIDED (exit 2)"}.get(r["exit"], str(r["exit"]))
        res.append("`./check %s`: %s%s" % (pid, verdict, (" - `%s`" % first) if first else ""))
    rows.append("| %s | %s | %s |" % (name, what, "<br>".join(res) or "not run"))
table = "| change | what it is | result (quick tier) |\n|---|---|---|\n" + "\n".join(rows)
if "--write" in sys.argv:
    p = os.path.join(root, "DESIGN.md")
    s = open(p).read()
    a = s.index("### 15.4 Seeded changes of this session")
    b = s.index("### 15.4b")
    head = s[a:].split("\n", 1)[0]
    pre = open(os.path.join(root, "seeded", "session4_preamble.md")).read() if os.path.exists(os.path.join(root, "seeded", "session4_preamble.md")) else ""
    s = s[:a] + head + "\n\n" + pre + table + "\n\n" + s[b:]
    open(p, "w").write(s)
else:
    print(table)
