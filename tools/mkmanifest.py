#!/usr/bin/env python3
"""Regenerate MANIFEST.json from tools/props.py (claims) and the static texts below."""
import json, os, sys
sys.path.insert(0, os.path.dirname(os.path.abspath(__file__)))
import props
root = os.path.dirname(os.path.dirname(os.path.abspath(__file__)))

TEXT = {
 "C01": ("Verus discharges the property-derived postcondition (result == overflowing(floor(a*b/2^f)) resp. trunc(a*2^f/b)) of the real mul_overflow/div_overflow bodies for all operands and a symbolic frac_nbits; Kani confirms the 8-bit instantiation bit-precisely and yields counterexamples",
         "assume_specification prelude for primitive integer methods; rewrite rules R1-R12; 128-bit paths not yet under contract (listed in evidence.not_covered)"),
 "C02": ("Verus proves every checked/saturating/wrapping/overflowing form of neg/abs/add/sub/mul_int/div_int of all ten families against one exact result R and the four policy specs; mul/div rest on the helper contracts of C01; Kani twins confirm the public forms on 8-bit layouts",
         "prelude specs of core integer methods (trusted, listed); signed `/` `%` axiom; mul/div wrapper forms verified by Kani on 8-bit layouts only"),
 "C03": ("Verus proves fixed_cmp_fixed (all six operators) for all 100 family pairs with both Frac symbolic against the exact ordering, on top of the to_fixed_helper contract; Kani function contracts on to_fixed_helper and to_float_kind (all inputs x all 507 layouts, symbolic layout) plus loop-free full-domain harnesses of the comparison macro bodies on all pairs of 8-bit layouts, cross-width samples, all integer types, f32/f64 against the exact ordering",
         "integer and float comparison macro bodies are proved for the instantiated type pairs only (Kani); to_fixed_helper contract is assumed in Verus and discharged by Kani; oracles in machine integers written from the property"),
 "C04": ("Verus proves `impl FromFixed` (all five forms) for the ten destination families with symbolic Frac, generic over every source type, and the typenum bounds of 371 From/LossyFrom impls; Kani function contracts on to_fixed_helper (all layouts) and loop-free full-domain harnesses of the conversion policies on all pairs of 8-bit layouts, 10 integer types, cross-width samples, From/LossyFrom instances",
         "to_fixed_helper contract assumed in Verus, discharged by Kani; integer conversions (impl_int!) and From/LossyFrom bodies verified by Kani on instantiated pairs only"),
 "C05": ("Kani function contracts: from_to_float_helper equals an independent IEEE-754 RNE encoder bit for bit, and to_float_kind equals the exact rounding of the decoded float, for every f32/f64 bit pattern and every layout (symbolic)",
         "IEEE-754 format definition in the oracle; per-family policy glue harness pending"),
 "C06": ("Verus proves the mask constants, int, frac, round_to_zero and all 20 rounding forms of all ten families with a symbolic Frac against floor/ceil/round/ties-even/to-zero over unbounded integers; every contracted function has a rejected `ensures false` twin",
         "no-frac callee contracts assumed here and proved in unit nofrac; PartialEq<Bits> contract assumed (Kani cmp8 for 8 bit); bit_vector bridge lemmas are proved, not assumed"),
 "C07": ("Verus proves %, checked_rem, checked_rem_euclid, rem_euclid for all ten families; Kani proves the integer-divisor and Euclidean-division forms on 8-bit layouts outside the region of the recorded finding F-C07-div-euclid",
         "div_euclid family: known finding (region carved out, witness replayed each run); _int forms 8-bit only"),
 "C08": ("BOUNDED (level other): Kani runs the real parsers on every byte string up to a stated length (9 bytes; 6/8 for decimal), every radix and all nine 8-bit layouts symbolic, against the exactly rounded literal, the overflow/wrap policy and an independent grammar; complete within the bound, never counted as proof",
         "bound on string length and width (8-bit types); Kani's model of Rust; two genuine defects found this way were fixed (known_findings.json)"),
 "C09": ("BOUNDED (level other): Kani runs the real formatters on every 8-bit value x all nine layouts: default output correctly rounded and round-trip safe, {:.p} (p <= 9) exactly rounded, flags only pad/prefix, radix-2^k outputs exact",
         "8-bit layouts, precision <= 9, from_utf8 stubbed; the early-trim defect found this way was fixed (known_findings.json)"),
 "C11": ("Both back ends verify under the checking semantics (overflow checks, shift checks, debug assertions of the dev-profile expansion); this check owns the panic-class obligations of all Verus units and of the listed Kani harnesses: when every such site is discharged under the function's precondition, no check can fire and the unchecked build computes the same value",
         "only functions under contract are covered; evidence.public_fn_coverage lists the public functions under Verus contract, exercised by Kani only, and not covered"),
 "C12": ("Verus verifies sqrt, exp, pow, powi, ln, log2 as written, generic over all supported (S, D), against trait-level contracts (no panic-class obligation left; conventions as postconditions); Kani proves sin/cos/tan/sqrt/log2/ln/exp total on I9F23 (whole domain) and sin/cos/exp on wider types for the stated ranges",
         "trait-level contracts and three conversion/comparison axioms assumed (listed); Kani results are per instantiated type"),
 "C17": ("Kani asserts the hook iteration counter <= 4*width+64 after every call (whole domain on I9F23, stated ranges / whole domain for sin on I32F32 in thorough); the generic Verus unit has only `for` loops over ranges bounded by frac_nbits() <= 128",
         "counter hook lines in transcendental.rs (guarded); per-type results; the sin range-reduction defect was fixed"),
 "C10": ("Kani runs the real parity-scale-codec derive for one alias per family over all bit patterns: encode == to_le_bytes == encoding of the bits, max_encoded_len, decode round trip, short input fails, byte views inverse",
         "the derive does not mention Frac (one alias per family); memcpy-sized loops closed by unwinding assertions; serde not built"),
 "C18": ("Kani proves every Wrapping<F> operator/method on six 8-bit layouts equal to the exact result modulo 2^8 and to the wrapping_* form of F (shift amounts of all integer types, assigning and by-reference forms, sum/product folds up to 3 elements)",
         "generic code instantiated at 8-bit layouts only; Verus generic proof pending"),
}
NA = {
 "C14": "oracle is log2/ln of a real number: no contract in Verus (no real analysis) or CBMC can express it (DESIGN.md §6)",
 "C16": "oracle is sin/cos/tan of a real number: not expressible in either back end (DESIGN.md §6)",
}
WIP = "check not built yet in this revision (work in progress, see DESIGN.md §10)"
all_ids = ["C%02d" % i for i in range(1, 19)]
checks = []
for pid in all_ids:
    if pid in props.PROPERTIES and pid in TEXT:
        spec = props.PROPERTIES[pid]
        backends = ("Verus" if spec.get("verus_units") else "") + (" + " if spec.get("verus_units") and spec.get("kani") else "") + ("Kani" if spec.get("kani") or spec.get("kani_thorough") else "")
        checks.append({"property_id": pid, "quick_cmd": "./check %s --tier quick" % pid, "thorough_cmd": "./check %s --tier thorough" % pid,
                       "evidence_file": "evidence/%s.json" % pid, "replay_cmd_template": "./check replay {path}", "engine": "contracts",
                       "level_claimed": {"category": spec["level"], "text": TEXT[pid][0], "design_ref": "DESIGN.md §5 " + pid},
                       "level_note": TEXT[pid][1],
                       "technique": "contract-based deductive verification of the real code (%s)" % backends})
na = [{"property_id": p, "reason": NA.get(p, WIP)} for p in all_ids if p not in [c["property_id"] for c in checks]]
m = {"version": 1, "setup_cmd": "./setup.sh",
     "hooks": {"guard": "substrate_fixed_verif", "enable": "RUSTFLAGS=\"--cfg substrate_fixed_verif\" (Kani harness crate and replay programs; Verus extraction runs with the guard off)",
               "baseline_off_cmd": "cd /repo && cargo test --workspace --no-fail-fast --offline", "source_commits": props.HOOK_COMMITS if hasattr(props, "HOOK_COMMITS") else [], "add_only": True},
     "engines": [{"name": "contracts", "path": "tools/driver.py", "serves_properties": [c["property_id"] for c in checks],
                  "kind_free_text": "Verus on functions extracted mechanically from the macro expansion of /repo (tools/rxtract.py, contracts in units/ and contracts/) + Kani function contracts / loop-free full-domain harnesses on the real crate (kani/)"}],
     "checks": checks, "not_applicable": na,
     "notes": "exit 0 held / 1 VIOLATION / 2 UNDECIDED (machinery could not decide; never an alarm). Fix commits and known findings: known_findings.json."}
json.dump(m, open(os.path.join(root, "MANIFEST.json"), "w"), indent=1)
print("claimed:", [c["property_id"] for c in checks])
