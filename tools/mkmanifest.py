#!/usr/bin/env python3
"""Regenerate MANIFEST.json from tools/props.py (claims) and the static texts below."""
import json, os, sys
sys.path.insert(0, os.path.dirname(os.path.abspath(__file__)))
import props
root = os.path.dirname(os.path.dirname(os.path.abspath(__file__)))

TEXT = {
 "C01": ("Verus discharges the property-derived postcondition (result == overflowing(floor(a*b/2^f)) resp. trunc(a*2^f/b)) of the real mul_overflow/div_overflow bodies for all operands and a symbolic frac_nbits at every width: widening bodies (8..64 bit), the four-limb 128-bit multiply, the 128-bit division on top of the fully proved wide_div.rs (Knuth-D step, normalisation, signed wrapper); Kani confirms the 8-bit instantiation bit-precisely and yields counterexamples",
         "assume_specification prelude for primitive integer methods (trusted, listed); one admitted axiom for signed `/` `%`; leading_zeros of u128 uninterpreted with its defining axiom; rewrite rules R1-R14 (DESIGN.md §11.1)"),
 "C02": ("Verus proves every checked/saturating/wrapping/overflowing form of neg/abs/add/sub/mul/div/mul_int/div_int (and the plain operators) of all ten families against one exact result R and the four policy specs, with a symbolic Frac; mul/div rest on the helper contracts proved under C01; Kani twins confirm the public forms on 8-bit layouts",
         "prelude specs of core integer methods (trusted, listed); signed `/` `%` axiom"),
 "C03": ("Verus proves all six comparison operators against the exact ordering of the values, with every Frac symbolic: fixed/fixed for all 100 family pairs, fixed/float and float/fixed (f32, f64) for the ten families, fixed/integer and integer/fixed for the ten families x twelve integer types; Kani function contracts on to_fixed_helper and to_float_kind (all inputs x all layouts, symbolic layout) carry the helper contracts the Verus units assume, plus loop-free full-domain harnesses on all pairs of 8-bit layouts",
         "to_fixed_helper / to_float_kind contracts are assumed in Verus and discharged by Kani; the float ordering is stated through the float's correctly rounded grid value and rounding direction (the content of the Kani contract)"),
 "C04": ("Verus proves, with symbolic Frac: `impl FromFixed` (five policies) for the ten destination families generic over every source type; ToFixed/FromFixed of the twelve integer types and bool, ToFixed of the ten families, from_num/to_num and their policies (generic over the other side); the typenum bounds of 371 From/LossyFrom impls and the bodies of 260 of them (re-homed, R6+R11); Kani function contracts on to_fixed_helper (all layouts) and full-domain harnesses on 8-bit layouts",
         "to_fixed_helper contract assumed in Verus, discharged by Kani; the remaining From/LossyFrom bodies (`into()` delegations, floats, bool, identity) by Kani instances; lossless primitive `From` conversions not specified by vstd are an axiom (listed)"),
 "C05": ("Kani function contracts: from_to_float_helper equals an independent IEEE-754 RNE encoder bit for bit, and to_float_kind equals the exact rounding of the decoded float, for every f32/f64 bit pattern and every layout (symbolic).  Verus proves the policy glue on top of them for every fixed-point type: the Sealed float helpers of the ten families and `impl ToFixed/FromFixed for f32/f64` generic over F",
         "IEEE-754 format definition in the Kani oracle; the Verus units see a float through uninterpreted abstraction functions whose meaning is the Kani contract"),
 "C06": ("Verus proves the mask constants, int, frac, round_to_zero and all 20 rounding forms of all ten families with a symbolic Frac against floor/ceil/round/ties-even/to-zero over unbounded integers; every contracted function has a rejected vacuity twin",
         "no-frac callee contracts assumed here and proved in unit nofrac; bit_vector bridge lemmas are proved, not assumed"),
 "C07": ("Verus proves %, checked_rem, checked_rem_euclid, rem_euclid for all ten families, and for a primitive-integer divisor checked_rem_int, `fixed % integer`, wrapping/overflowing_rem_int, overflowing/wrapping/plain rem_euclid_int (signed: bit-level proof at every width); Kani proves the Euclidean-division forms on 8-bit layouts outside the region of the recorded finding F-C07-div-euclid",
         "div_euclid family: known finding (region carved out, witness replayed each run), Kani 8-bit only; signed checked_rem_euclid_int (closure in Option::map) Kani 8-bit only"),
 "C08": ("Level other, two layers.  Verus (all inputs, all widths, every (int_nbits, frac_nbits)): every width-specific function of the parser (dec_to_bin x5 correctly rounded, mul_hi_lo, div_tie) and the whole recombination layer of impl_from_str! (from_str_iN / from_str_uN / get_int_fracN / get_intN / get_fracN, N = 8..128: result = wrap(+-A), flag = !fits(+-A) for the correctly rounded magnitude A expressed through the value functions of the digit strings).  BOUNDED (Kani): the tokeniser and the generic digit loops, which the Verus layer assumes, run for real on every byte string up to a stated length (9 bytes; 6/7 for decimal), every radix, all nine 8-bit layouts symbolic, against the exactly rounded literal, the overflow/wrap policy and an independent grammar; complete within the bound, never counted as proof",
         "the digit loops and parse_bounds (iterator adapters) are assumed contracts in the Verus layer and bounded (8-bit types, string length) in the Kani layer; Kani's model of Rust; two genuine defects found this way were fixed (known_findings.json)"),
 "C09": ("BOUNDED (level other): Kani runs the real formatters on every 8-bit value x all nine layouts: default output correctly rounded and round-trip safe, {:.p} (p <= 9) exactly rounded, flags and width (also together with a precision) only pad/prefix, radix-2^k outputs exact",
         "8-bit layouts, precision <= 9, from_utf8 stubbed; the early-trim defect found this way was fixed (known_findings.json)"),
 "C11": ("Both back ends verify under the checking semantics (overflow checks, shift checks, debug assertions of the dev-profile expansion); this check owns the panic-class obligations of all Verus units and of the listed Kani harnesses: when every such site is discharged under the function's precondition, no check can fire and the unchecked build computes the same value",
         "only functions under contract are covered; evidence.public_fn_coverage lists the public functions under Verus contract, exercised by Kani only, and not covered"),
 "C12": ("Verus verifies sqrt, exp, pow, powi, ln, log2, sin, cos and the helpers log2_inner, rs, cordic_rotation as written, generic over all supported types, against trait-level contracts (no panic-class obligation left; conventions as postconditions; loop invariants for Newton, the two log2 loops and the CORDIC growth bound); Kani proves sin/cos/tan/sqrt/log2/ln/exp total on I9F23 (whole domain resp. the stated ranges) and sin/cos/exp on wider types for the stated ranges",
         "trait-level method contracts are copied from the text proved per family (traitfwd); operator axioms proved per family by link traits; conversion / comparison axioms with the I9F23 constants and ax_bits_ops (primitive Bits type) assumed (listed); tan: Kani on I9F23 only; extraction rules R16 (unused .rev()), R18 (zip-index), R19 (exec const table)"),
 "C13": ("Verus verifies the real generic sqrt, for every supported pair of types, against the integer bracket (r - 4)^2 <= X * 2^F <= (r + 4)^2 (|r - sqrt x| <= 4 ulp), exactness at 0 and 1, non-negativity, and Err only for negative operands / unrepresentable reciprocals: the Newton loop carries the invariant that the distance to the integer square root at least halves per step, the reciprocal path a nonlinear bracket lemma; all lemmas machine-checked, no admit",
         "trait-level contracts of Fixed and the conversion / comparison axioms are assumed here (proved in other units / by Kani); holds for the tree with the trip-count fix 164c3b4 (known_findings.json) - the pre-fix loop count fails the final-step obligation; no SAT twin (64-bit dividers), so violations come without a failing input"),
 "C15": ("PARTIAL, level other: Verus proves, on the real generic powi and pow for every supported type pair and every i32 exponent, the clauses a contract can express - the powi error bound |r * one^(n-1) - X^n| <= (n - 1) * max(one, |X|)^(n-1) (implies the stated (|n|+1) ulp * max(1,|x|)^(|n|-1)), the truncated-reciprocal form for negative exponents, and the conventions 0^y = 0, x^0 = 1, x^1 = x of pow and powi.  The exp / pow accuracy clauses need e^x and x^y over the reals and are not decided by any contract within reach; they are listed as not covered rather than sampled",
         "exp and pow accuracy: not covered (a change that only degrades their accuracy passes this check); trait-level contracts and conversion axioms assumed (listed)"),
 "C17": ("Verus: a ghost iteration counter (R14) in sqrt, exp, sin, log2_inner, cordic_rotation, generic over every supported type, with the bound asserted at every exit and `decreases bound - vticks` on while/loop; log2, ln, pow, cos add their callees' proved bounds at the call sites (pow: 3w+2 <= 4w+64); Kani asserts the hook iteration counter <= 4*width+64 after every call (whole domain on I9F23, I32F32 in thorough)",
         "counter hook lines in transcendental.rs (guarded); tan counted by Kani on I9F23 only; the ghost counter is added at call sites by the template, not carried by callee contracts; the sin range-reduction defect was fixed"),
 "C10": ("Kani runs the real parity-scale-codec derive for one alias per family over all bit patterns: encode == to_le_bytes == encoding of the bits, max_encoded_len, decode round trip, short input fails, byte views inverse",
         "the derive does not mention Frac (one alias per family); memcpy-sized loops closed by unwinding assertions; serde not built"),
 "C18": ("Verus, generic over F: every operator impl and inherent method of Wrapping<F> (226 functions, incl. 288 shift impls with the amount reduced modulo the width) against trait-level contracts of Fixed; per family: the `impl Fixed` forwarders meet those contracts, the integer-rhs impls, and shifts / bit operators of F with mathematical postconditions; Kani proves the same operators end to end on 8-bit layouts, plus sum/product folds and parsing forwarders",
         "Sum/Product, from_str* forwarders and next_power_of_two: Kani 8-bit only; #[repr(transparent)] layout axiom; uninterpreted (deterministic-only) contracts for bit counting / rotate / wrapping_div_euclid*"),
}
NA = {
 "C14": "oracle is log2/ln of a real number: no contract in Verus (no real analysis) or CBMC can express it (DESIGN.md §6)",
 "C16": "oracle is sin/cos/tan of a real number: not expressible in either back end (DESIGN.md §6)",
}
WIP = "check not built yet in this revision (work in progress, see DESIGN.md §10)"
all_ids = ["C%02d" % i for i in range(1, 19)]
checks = []
for pid in all_ids:
    if pid in props.PROPERTIES and pid in TEXT:
        spec = props.PROPERTIES[pid]
        backends = ("Verus" if spec.get("verus_units") else "") + (" + " if spec.get("verus_units") and spec.get("kani") else "") + ("Kani" if spec.get("kani") or spec.get("kani_thorough") else "")
        checks.append({"property_id": pid, "quick_cmd": "./check %s --tier quick" % pid, "thorough_cmd": "./check %s --tier thorough" % pid,
                       "evidence_file": "evidence/%s.json" % pid, "replay_cmd_template": "./check replay {path}", "engine": "contracts",
                       "level_claimed": {"category": spec["level"], "text": TEXT[pid][0], "design_ref": "DESIGN.md §11 (and §5 " + pid + ")"},
                       "level_note": TEXT[pid][1],
                       "technique": "contract-based deductive verification of the real code (%s)" % backends})
na = [{"property_id": p, "reason": NA.get(p, WIP)} for p in all_ids if p not in [c["property_id"] for c in checks]]
m = {"version": 1, "setup_cmd": "./setup.sh",
     "hooks": {"guard": "substrate_fixed_verif", "enable": "RUSTFLAGS=\"--cfg substrate_fixed_verif\" (Kani harness crate and replay programs; Verus extraction runs with the guard off)",
               "baseline_off_cmd": "cd /repo && cargo test --workspace --no-fail-fast --offline", "source_commits": props.HOOK_COMMITS if hasattr(props, "HOOK_COMMITS") else [], "add_only": True},
     "engines": [{"name": "contracts", "path": "tools/driver.py", "serves_properties": [c["property_id"] for c in checks],
                  "kind_free_text": "Verus on functions extracted mechanically from the macro expansion of /repo (tools/rxtract.py, contracts in units/ and contracts/) + Kani function contracts / loop-free full-domain harnesses on the real crate (kani/)"}],
     "checks": checks, "not_applicable": na,
     "notes": "exit 0 held / 1 VIOLATION / 2 UNDECIDED (machinery could not decide; never an alarm). Fix commits and known findings: known_findings.json."}
json.dump(m, open(os.path.join(root, "MANIFEST.json"), "w"), indent=1)
print("claimed:", [c["property_id"] for c in checks])
