// leading / trailing zero counts of u8: specified by vstd (std_specs::bits)
pub open spec fn sp_leading_zeros(a: u8) -> int { vstd::std_specs::bits::u8_leading_zeros(a) as int }
pub open spec fn sp_trailing_zeros(a: u8) -> int { vstd::std_specs::bits::u8_trailing_zeros(a) as int }
