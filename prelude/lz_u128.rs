// leading / trailing zero counts of u128: no vstd specification; deterministic functions (assumption on core)
pub uninterp spec fn sp_leading_zeros(a: u128) -> int;
pub uninterp spec fn sp_trailing_zeros(a: u128) -> int;
pub assume_specification [u128::leading_zeros] (a: u128) -> (r: u32) ensures r as int == sp_leading_zeros(a);
pub assume_specification [u128::trailing_zeros] (a: u128) -> (r: u32) ensures r as int == sp_trailing_zeros(a);
