// leading / trailing zero counts of i64: no vstd specification; deterministic functions (assumption on core)
pub uninterp spec fn sp_leading_zeros(a: i64) -> int;
pub uninterp spec fn sp_trailing_zeros(a: i64) -> int;
pub assume_specification [i64::leading_zeros] (a: i64) -> (r: u32) ensures r as int == sp_leading_zeros(a);
pub assume_specification [i64::trailing_zeros] (a: i64) -> (r: u32) ensures r as int == sp_trailing_zeros(a);
