// leading / trailing zero counts of i8: no vstd specification; deterministic functions (assumption on core)
pub uninterp spec fn sp_leading_zeros(a: i8) -> int;
pub uninterp spec fn sp_trailing_zeros(a: i8) -> int;
pub assume_specification [i8::leading_zeros] (a: i8) -> (r: u32) ensures r as int == sp_leading_zeros(a);
pub assume_specification [i8::trailing_zeros] (a: i8) -> (r: u32) ensures r as int == sp_trailing_zeros(a);
