// signed primitive `/` truncates toward zero (same admitted axiom as prelude/int_ops_signed.rs, for units that do not include that file)
pub proof fn axiom_sdiv_{{T}}(a: {{T}}, b: {{T}})
    requires b != 0, !(a as int == min_of(true, {{W}}) && b == -1)
    ensures DivSpec::<{{T}}>::div_spec(a, b) as int == tz(a as int, b as int)
{ admit(); }
