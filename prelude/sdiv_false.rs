// unsigned primitive `/` is the floor division of the solver: nothing to assume
pub proof fn axiom_sdiv_{{T}}(a: {{T}}, b: {{T}})
    requires b != 0
    ensures a as int / b as int == tz(a as int, b as int)
{ }
