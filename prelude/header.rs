#![allow(unused_imports, unused_variables, unused_parens, non_snake_case, unused_mut, dead_code, unused_braces, non_upper_case_globals, unused_assignments)]
use vstd::prelude::*;
use vstd::arithmetic::power2::*;
use vstd::arithmetic::div_mod::*;
use vstd::arithmetic::mul::*;
use vstd::std_specs::ops::*;
use vstd::std_specs::cmp::*;
use core::cmp::Ordering;
