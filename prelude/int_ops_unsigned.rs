// ---- prelude/int_ops_unsigned.rs (templated over T,W): `/` and `%` on unsigned integers need no axiom ----
pub proof fn axiom_div_{{T}}(a: {{T}}, b: {{T}})
    requires b != 0
    ensures true
{ }
