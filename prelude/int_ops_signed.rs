// ---- prelude/int_ops_signed.rs (templated over T,W): signed-only primitive methods ----
pub assume_specification [{{T}}::is_negative] (a: {{T}}) -> (r: bool) ensures r == (a < 0);
pub assume_specification [{{T}}::is_positive] (a: {{T}}) -> (r: bool) ensures r == (a > 0);
pub assume_specification [{{T}}::overflowing_abs] (a: {{T}}) -> (r: ({{T}}, bool))
    ensures r.0 as int == wrap(true, {{W}}, abs_(a as int)), r.1 == !fits(true, {{W}}, abs_(a as int));
pub assume_specification [{{T}}::wrapping_abs] (a: {{T}}) -> (r: {{T}})
    ensures r as int == wrap(true, {{W}}, abs_(a as int));
pub assume_specification [{{T}}::checked_abs] (a: {{T}}) -> (r: Option<{{T}}>)
    ensures r == (if fits(true, {{W}}, abs_(a as int)) { Some(abs_(a as int) as {{T}}) } else { None });
pub assume_specification [{{T}}::abs] (a: {{T}}) -> (r: {{T}})
    requires fits(true, {{W}}, abs_(a as int))
    ensures r as int == abs_(a as int);
pub assume_specification [{{T}}::rem_euclid] (a: {{T}}, b: {{T}}) -> (r: {{T}})
    requires b != 0, !(a as int == min_of(true, {{W}}) && b == -1)
    ensures r as int == er(a as int, b as int);
// Rust's `/` and `%` on signed integers truncate toward zero.  Verus generates the right preconditions for them but
// its DivSpec/RemSpec are not unfolded by the solver when the divisor may be negative, so the documented semantics is
// stated here as a (trusted, admitted) axiom, listed under trusted_base.
pub proof fn axiom_div_{{T}}(a: {{T}}, b: {{T}})
    requires b != 0, !(a as int == min_of(true, {{W}}) && b == -1)
    ensures DivSpec::<{{T}}>::div_spec(a, b) as int == tz(a as int, b as int),
            RemSpec::<{{T}}>::rem_spec(a, b) as int == a as int - (b as int) * tz(a as int, b as int)
{ admit(); }
