// leading / trailing zero counts of i128: no vstd specification; deterministic functions (assumption on core)
pub uninterp spec fn sp_leading_zeros(a: i128) -> int;
pub uninterp spec fn sp_trailing_zeros(a: i128) -> int;
pub assume_specification [i128::leading_zeros] (a: i128) -> (r: u32) ensures r as int == sp_leading_zeros(a);
pub assume_specification [i128::trailing_zeros] (a: i128) -> (r: u32) ensures r as int == sp_trailing_zeros(a);
