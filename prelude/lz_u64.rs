// leading / trailing zero counts of u64: specified by vstd (std_specs::bits)
pub open spec fn sp_leading_zeros(a: u64) -> int { vstd::std_specs::bits::u64_leading_zeros(a) as int }
pub open spec fn sp_trailing_zeros(a: u64) -> int { vstd::std_specs::bits::u64_trailing_zeros(a) as int }
