// ---- prelude/int_ops.rs (templated over T,W,S): documented std semantics of primitive-integer methods ----
// Trusted (assume_specification): the documented semantics of core, stated over unbounded integers.
// Listed under trusted_base of every check that uses a unit including this file.
pub assume_specification [{{T}}::overflowing_mul] (a: {{T}}, b: {{T}}) -> (r: ({{T}}, bool))
    ensures r.0 as int == wrap({{S}}, {{W}}, a as int * b as int), r.1 == !fits({{S}}, {{W}}, a as int * b as int);
pub assume_specification [{{T}}::overflowing_add] (a: {{T}}, b: {{T}}) -> (r: ({{T}}, bool))
    ensures r.0 as int == wrap({{S}}, {{W}}, a as int + b as int), r.1 == !fits({{S}}, {{W}}, a as int + b as int);
pub assume_specification [{{T}}::overflowing_sub] (a: {{T}}, b: {{T}}) -> (r: ({{T}}, bool))
    ensures r.0 as int == wrap({{S}}, {{W}}, a as int - b as int), r.1 == !fits({{S}}, {{W}}, a as int - b as int);
pub assume_specification [{{T}}::wrapping_div] (a: {{T}}, b: {{T}}) -> (r: {{T}})
    requires b != 0
    ensures r as int == wrap({{S}}, {{W}}, tz(a as int, b as int));
pub assume_specification [{{T}}::overflowing_div] (a: {{T}}, b: {{T}}) -> (r: ({{T}}, bool))
    requires b != 0
    ensures r.0 as int == wrap({{S}}, {{W}}, tz(a as int, b as int)), r.1 == !fits({{S}}, {{W}}, tz(a as int, b as int));
pub assume_specification [{{T}}::overflowing_neg] (a: {{T}}) -> (r: ({{T}}, bool))
    ensures r.0 as int == wrap({{S}}, {{W}}, -(a as int)), r.1 == !fits({{S}}, {{W}}, -(a as int));
pub assume_specification [{{T}}::wrapping_neg] (a: {{T}}) -> (r: {{T}})
    ensures r as int == wrap({{S}}, {{W}}, -(a as int));
pub assume_specification [{{T}}::checked_neg] (a: {{T}}) -> (r: Option<{{T}}>)
    ensures r == (if fits({{S}}, {{W}}, -(a as int)) { Some((-(a as int)) as {{T}}) } else { None });
pub assume_specification [{{T}}::min_value] () -> (r: {{T}})
    ensures r as int == min_of({{S}}, {{W}});
pub assume_specification [{{T}}::max_value] () -> (r: {{T}})
    ensures r as int == max_of({{S}}, {{W}});
