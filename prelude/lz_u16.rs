// leading / trailing zero counts of u16: specified by vstd (std_specs::bits)
pub open spec fn sp_leading_zeros(a: u16) -> int { vstd::std_specs::bits::u16_leading_zeros(a) as int }
pub open spec fn sp_trailing_zeros(a: u16) -> int { vstd::std_specs::bits::u16_trailing_zeros(a) as int }
