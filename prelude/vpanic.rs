// R2: every panic site of the real code becomes a call whose precondition is `false`
#[verifier::external_body]
pub fn vpanic() -> ! requires false { panic!() }
