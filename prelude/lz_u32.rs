// leading / trailing zero counts of u32: specified by vstd (std_specs::bits)
pub open spec fn sp_leading_zeros(a: u32) -> int { vstd::std_specs::bits::u32_leading_zeros(a) as int }
pub open spec fn sp_trailing_zeros(a: u32) -> int { vstd::std_specs::bits::u32_trailing_zeros(a) as int }
