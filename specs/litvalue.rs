// ---- the value a literal denotes (shared by units parsetop and parsepolicy) ----
pub open spec fn fround(s: Seq<u8>, radix: u32, nbits: int) -> int {
    if radix == 10 { frac_rne(s, nbits) } else if radix == 16 { frac_pow2(hn(s), 4, nbits) } else if radix == 8 { frac_pow2(s, 3, nbits) } else { frac_pow2(s, 1, nbits) }
}
pub open spec fn digits_ok(s: Seq<u8>) -> bool { forall|i: int| 0 <= i < s.len() ==> #[trigger] s[i] >= 48 }
pub open spec fn fhalf(s: Seq<u8>, radix: u32) -> bool { s.len() == 1 && (s[0] - 48) as int == ((radix as u8) / 2) as int }
pub open spec fn radix_ok(radix: u32) -> bool { radix == 2 || radix == 8 || radix == 10 || radix == 16 }
// the value the literal rounds to, as a non-negative bit pattern (unbounded): integer digits, rounded fraction, and the tie on an odd integer
pub open spec fn lit_abs(ip: Seq<u8>, frac: Seq<u8>, radix: u32, f: int) -> int {
    ival(ip, radix) * p2(f) + fround(frac, radix, f) + (if f == 0 && ival(ip, radix) % 2 == 1 && fhalf(frac, radix) { 1int } else { 0int })
}
