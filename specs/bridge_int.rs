// ---- specs/bridge_int.rs (templated over T,U,W,S,LO,HI,Q): machine shifts as integer facts ----
// Proved by induction on the shift amount from one-bit shifts, so that no bit-vector multiplier is needed.
pub proof fn lemma_p2_of_{{T}}(n: u32)
    requires n < {{W}}
    ensures (1{{U}} << n) as int == p2(n as int)
    decreases n
{
    if n == 0 { assert(1{{U}} << 0u32 == 1{{U}}) by (bit_vector); lemma_p2_consts(); }
    else {
        lemma_p2_of_{{T}}((n - 1) as u32);
        assert((1{{U}} << n) as int == 2 * ((1{{U}} << ((n - 1) as u32)) as int)) by (bit_vector) requires 0 < n < {{W}};
        lemma_p2_step(n as int);
    }
}
pub proof fn lemma_shl_{{T}}(x: {{T}}, n: u32)
    requires n < {{W}}, fits({{S}}, {{W}}, x as int * p2(n as int))
    ensures (x << n) as int == x as int * p2(n as int)
    decreases n
{
    lemma_p2_consts();
    if n == 0 { assert(x << 0u32 == x) by (bit_vector); }
    else {
        let m = (n - 1) as u32;
        lemma_p2_step(n as int); lemma_p2_pos(m as int);
        let pm = p2(m as int);
        assert(x as int * p2(n as int) == 2 * (x as int * pm)) by (nonlinear_arith) requires p2(n as int) == 2 * pm;
        lemma_shl_{{T}}(x, m);
        let y = x << m;
        assert(x << n == (x << ((n - 1) as u32)) << 1u32) by (bit_vector) requires 0 < n < {{W}};
        assert((y << 1u32) as int == 2 * (y as int)) by (bit_vector) requires {{LO}}int <= 2 * (y as int) < {{HI}}int;
    }
}
pub broadcast proof fn bridge_shl_{{T}}(x: {{T}}, n: u32)
    requires n < {{W}}, fits({{S}}, {{W}}, x as int * p2(n as int))
    ensures #[trigger] (x << n) as int == x as int * p2(n as int)
{ lemma_shl_{{T}}(x, n); }

pub proof fn lemma_shr_{{T}}(x: {{T}}, n: u32)
    requires n < {{W}}
    ensures (x >> n) as int == (x as int) / p2(n as int)
    decreases n
{
    lemma_p2_consts();
    if n == 0 { assert(x >> 0u32 == x) by (bit_vector); }
    else {
        let m = (n - 1) as u32;
        lemma_p2_step(n as int); lemma_p2_pos(m as int);
        let pm = p2(m as int);
        lemma_shr_{{T}}(x, m);
        let y = x >> m;
        assert(x >> n == (x >> ((n - 1) as u32)) >> 1u32) by (bit_vector) requires 0 < n < {{W}};
        assert(2 * ((y >> 1u32) as int) <= y as int && (y as int) < 2 * ((y >> 1u32) as int) + 2) by (bit_vector);
        let q2 = (y >> 1u32) as int;
        let xi = x as int;
        lemma_fundamental_div_mod(xi, pm); lemma_mod_bound(xi, pm);
        let r = xi % pm;
        let r2 = y as int - 2 * q2;
        assert(xi == p2(n as int) * q2 + (pm * r2 + r) && 0 <= pm * r2 + r < p2(n as int)) by (nonlinear_arith)
            requires xi == pm * (y as int) + r, 0 <= r < pm, y as int == 2 * q2 + r2, 0 <= r2 <= 1, p2(n as int) == 2 * pm;
        lemma_fundamental_div_mod_converse_div(xi, p2(n as int), q2, pm * r2 + r);
    }
}
pub broadcast proof fn bridge_shr_{{T}}(x: {{T}}, n: u32)
    requires n < {{W}}
    ensures #[trigger] (x >> n) as int == (x as int) / p2(n as int)
{ lemma_shr_{{T}}(x, n); }
// shift left with wrap-around: the unsigned reinterpretation of x << n is (x * 2^n) mod 2^W (induction on n)
pub proof fn lemma_shl_wrap_{{T}}(x: {{T}}, n: u32)
    requires n < {{W}}
    ensures ((x << n) as {{U}}) as int == wrap(false, {{W}}, x as int * p2(n as int))
    decreases n
{
    lemma_p2_consts();
    if n == 0 {
        assert(x << 0u32 == x) by (bit_vector);
        assert((x as {{U}}) as int == x as int || (x as {{U}}) as int == x as int + ({{HI}}int - {{LO}}int)) by (bit_vector);
        if (x as {{U}}) as int == x as int { lemma_wrap_unique(false, {{W}}, x as int, (x as {{U}}) as int, 0); }
        else { lemma_wrap_unique(false, {{W}}, x as int, (x as {{U}}) as int, 1); }
    } else {
        let m = (n - 1) as u32;
        lemma_shl_wrap_{{T}}(x, m);
        lemma_p2_step(n as int); lemma_p2_pos(m as int);
        let y = (x << m) as {{U}};
        let xm = x as int * p2(m as int);
        let k = lemma_wrap_diff(false, {{W}}, xm);
        assert(((x << n) as {{U}}) == (((x << ((n - 1) as u32)) as {{U}}) << 1u32)) by (bit_vector) requires 0 < n < {{W}};
        assert((y << 1u32) as int == 2 * (y as int) || (y << 1u32) as int == 2 * (y as int) - ({{HI}}int - {{LO}}int)) by (bit_vector);
        let z = (y << 1u32) as int;
        assert(x as int * p2(n as int) == 2 * xm) by (nonlinear_arith) requires p2(n as int) == 2 * p2(m as int), xm == x as int * p2(m as int);
        // z = 2 * (xm - k 2^W) - c 2^W  for c in {0, 1}
        if z == 2 * (y as int) {
            assert(z == 2 * xm + (-(2 * k)) * p2({{W}})) by (nonlinear_arith) requires z == 2 * (y as int), y as int == xm - k * p2({{W}});
            lemma_wrap_unique(false, {{W}}, 2 * xm, z, -(2 * k));
        } else {
            assert(z == 2 * xm + (-(2 * k) - 1) * p2({{W}})) by (nonlinear_arith) requires z == 2 * (y as int) - p2({{W}}), y as int == xm - k * p2({{W}});
            lemma_wrap_unique(false, {{W}}, 2 * xm, z, -(2 * k) - 1);
        }
    }
}
