// ---- specs/bridge_cast.rs (templated over A,B,WB,SB,LO,HI,M): truncating / reinterpreting cast A -> B ----
pub broadcast proof fn bridge_cast_{{A}}_{{B}}(x: {{A}})
    ensures #[trigger] (x as {{B}}) as int == wrap({{SB}}, {{WB}}, x as int)
{
    lemma_p2_consts();
    let y = (x as {{B}}) as int;
    assert({{LO}}int <= (x as {{B}}) as int && ((x as {{B}}) as int) < {{HI}}int && (((x as {{B}}) as int) - x as int) % {{M}}int == 0) by (bit_vector);
    let d = y - x as int;
    lemma_fundamental_div_mod(d, {{M}}int);
    let k = d / {{M}}int;
    assert(d == {{M}}int * k);
    assert(y == x as int + k * {{M}}int) by (nonlinear_arith) requires d == {{M}}int * k, d == y - x as int;
    lemma_wrap_unique({{SB}}, {{WB}}, x as int, y, k);
}
