// ---- specs/newton.rs: the integer facts behind sqrt's Newton iteration (C12: no unchecked step can overflow) ----
// Bit patterns: X = operand >= one = 2^F, L = current iterate, N = X * one.
// One step: Q = floor(N / L), S = L + Q, L' = floor(S / 2).
pub open spec fn newton_inv(x: int, l: int, one: int) -> bool {
    one <= l <= x / 2 + 3 * one && (l + 1) * (l + 1) > x * one
}
pub proof fn lemma_newton_init(x: int, one: int)
    requires x >= one, one >= 1
    ensures newton_inv(x, x / 2 + one, one)
{
    let l = x / 2 + one;
    assert(2 * (x / 2) >= x - 1);
    assert((l + 1) * (l + 1) > x * one) by (nonlinear_arith) requires 2 * l >= x - 1 + 2 * one, x >= one, one >= 1, l >= 1;
}
pub proof fn lemma_newton_step(x: int, l: int, one: int)
    requires newton_inv(x, l, one), x >= one, one >= 1
    ensures ({ let q = (x * one) / l; let s = l + q;
               &&& l > 0 &&& 0 <= q <= x &&& s <= x / 2 + 5 * one || s <= 6 * one &&& s >= 0
               &&& newton_inv(x, s / 2, one) })
{
    let n = x * one;
    let q = n / l; let s = l + q; let l2 = s / 2;
    assert(n >= one * one) by (nonlinear_arith) requires n == x * one, x >= one, one >= 1;
    lemma_fundamental_div_mod(n, l); lemma_mod_bound(n, l);
    let r = n % l;
    assert(n == l * q + r && 0 <= r < l);
    assert(q >= 0) by (nonlinear_arith) requires n == l * q + r, 0 <= r < l, n >= 0;
    assert(q <= x) by (nonlinear_arith) requires n == l * q + r, r >= 0, n == x * one, l >= one, one >= 1, q >= 0, x >= 0;
    // upper bound on s
    if l >= 2 * one {
        // (l - a)(l - b) <= 0 with a = 2 one, b = x/2 + 3 one, and a * b >= n  ==>  l + n / l <= a + b
        let a = 2 * one; let b = x / 2 + 3 * one;
        assert(2 * (x / 2) >= x - 1);
        assert(a * b >= n) by (nonlinear_arith) requires a == 2 * one, 2 * b >= x - 1 + 6 * one, n == x * one, one >= 1;
        assert(l * l + a * b <= (a + b) * l) by (nonlinear_arith) requires a <= l <= b;
        assert(l * q <= n);
        assert(l * (l + q) <= (a + b) * l) by (nonlinear_arith) requires l * l + a * b <= (a + b) * l, l * q <= n, n <= a * b;
        assert(s <= a + b) by (nonlinear_arith) requires l * s <= (a + b) * l, l > 0, s == l + q;
    } else {
        // l < 2 one and (l + 1)^2 > n  ==>  n < 4 one^2  ==>  x < 4 one, q <= x
        assert(n < 4 * one * one) by (nonlinear_arith) requires (l + 1) * (l + 1) > n, l + 1 <= 2 * one, l >= 0;
        assert(x < 4 * one) by (nonlinear_arith) requires n == x * one, n < 4 * one * one, one >= 1;
    }
    // lower bound and the square invariant for the next iterate: (2 (l2 + 1))^2 >= (l + q + 1)^2 >= 4 l (q + 1) > 4 n
    assert(2 * l2 >= s - 1);
    assert(n < l * (q + 1)) by (nonlinear_arith) requires n == l * q + r, r < l;
    assert((l + q + 1) * (l + q + 1) >= 4 * (l * (q + 1))) by (nonlinear_arith);
    assert((2 * (l2 + 1)) * (2 * (l2 + 1)) >= (l + q + 1) * (l + q + 1)) by (nonlinear_arith) requires 2 * (l2 + 1) >= l + q + 1, l + q + 1 >= 0;
    assert((l2 + 1) * (l2 + 1) > n) by (nonlinear_arith) requires (2 * (l2 + 1)) * (2 * (l2 + 1)) > 4 * n;
    // l2 >= one: (l2 + 1)^2 > n >= one^2
    assert(l2 + 1 > one) by (nonlinear_arith) requires (l2 + 1) * (l2 + 1) > n, n >= one * one, l2 + 1 >= 0, one >= 1;
    // l2 <= x/2 + 3 one
    assert(4 * (x / 2) >= 2 * x - 2);
}
