// ---- specs/digits.rs: the value of a digit string (C08) ----
// digits are ASCII bytes; dval(s, r) = sum of (s[i] - 48) * r^(len-1-i)
pub open spec fn dval(s: Seq<u8>, r: int) -> int
    decreases s.len()
{
    if s.len() == 0 { 0 } else { dval(s.drop_last(), r) * r + (s.last() as int - 48) }
}
pub open spec fn digits_r(s: Seq<u8>, r: int) -> bool { forall|i: int| 0 <= i < s.len() ==> 48 <= #[trigger] s[i] < 48 + r }
pub open spec fn dec_digits(s: Seq<u8>) -> bool { digits_r(s, 10) }
pub open spec fn ipow(b: int, n: int) -> int decreases n { if n <= 0 { 1 } else { b * ipow(b, n - 1) } }
pub proof fn lemma_ipow_pos(b: int, n: int)
    requires b >= 1
    ensures ipow(b, n) >= 1
    decreases n
{ if n > 0 { lemma_ipow_pos(b, n - 1); assert(b * ipow(b, n - 1) >= 1) by (nonlinear_arith) requires b >= 1, ipow(b, n - 1) >= 1; } }
// 10^n = 2^n * 5^n
pub proof fn lemma_ten_pow(n: int)
    requires n >= 0
    ensures ipow(10, n) == p2(n) * ipow(5, n), ipow(5, n) >= 1, ipow(10, n) >= p2(n)
    decreases n
{
    lemma_p2_pos(n);
    if n == 0 { lemma2_to64(); assert(p2(0) == 1); }
    else {
        lemma_ten_pow(n - 1); lemma_p2_step(n);
        let (a, b, c) = (p2(n - 1), ipow(5, n - 1), ipow(10, n - 1));
        assert(10 * c == (2 * a) * (5 * b)) by (nonlinear_arith) requires c == a * b;
        assert(5 * b >= 1);
        assert((2 * a) * (5 * b) >= 2 * a) by (nonlinear_arith) requires a > 0, 5 * b >= 1;
    }
}
// bounds: 0 <= dval(s, r) < r^len, and a non-zero leading digit makes it at least r^(len-1)
pub proof fn lemma_dval_bounds_r(s: Seq<u8>, r: int)
    requires digits_r(s, r), 2 <= r <= 16
    ensures 0 <= dval(s, r) < ipow(r, s.len() as int), (s.len() > 0 && s[0] != 48) ==> dval(s, r) >= ipow(r, s.len() as int - 1)
    decreases s.len()
{
    if s.len() > 0 {
        let t = s.drop_last();
        assert(digits_r(t, r)) by { assert forall|i: int| 0 <= i < t.len() implies 48 <= #[trigger] t[i] < 48 + r by { assert(t[i] == s[i]); } }
        lemma_dval_bounds_r(t, r);
        let d = s.last() as int - 48;
        assert(0 <= d <= r - 1);
        let (v, p) = (dval(t, r), ipow(r, t.len() as int));
        assert(v * r + d < r * p) by (nonlinear_arith) requires 0 <= v, v < p, 0 <= d <= r - 1, r >= 2;
        assert(v * r + d >= 0) by (nonlinear_arith) requires 0 <= v, d >= 0, r >= 2;
        assert(ipow(r, s.len() as int) == r * p);
        if s[0] != 48 {
            if t.len() > 0 { assert(t[0] == s[0]); assert(ipow(r, s.len() as int - 1) == r * ipow(r, t.len() as int - 1));
                assert(v * r + d >= r * ipow(r, t.len() as int - 1)) by (nonlinear_arith) requires v >= ipow(r, t.len() as int - 1), d >= 0, r >= 2; }
            else { assert(s.last() == s[0]); assert(d >= 1); }
        }
    }
}
pub proof fn lemma_dval_bounds(s: Seq<u8>)
    requires dec_digits(s)
    ensures 0 <= dval(s, 10) < ipow(10, s.len() as int), (s.len() > 0 && s[0] != 48) ==> dval(s, 10) >= ipow(10, s.len() as int - 1)
{ lemma_dval_bounds_r(s, 10); }
// splitting at position k: dval(s) = dval(s[..k]) * r^(len-k) + dval(s[k..])
pub proof fn lemma_dval_split_r(s: Seq<u8>, k: int, r: int)
    requires 0 <= k <= s.len()
    ensures dval(s, r) == dval(s.subrange(0, k), r) * ipow(r, s.len() as int - k) + dval(s.subrange(k, s.len() as int), r)
    decreases s.len() - k
{
    let n = s.len() as int;
    if k == n {
        assert(s.subrange(0, n) =~= s); assert(s.subrange(n, n).len() == 0);
    } else {
        let t = s.drop_last();
        lemma_dval_split_r(t, k, r);
        assert(t.subrange(0, k) =~= s.subrange(0, k));
        assert(t.subrange(k, n - 1) =~= s.subrange(k, n).drop_last());
        assert(s.subrange(k, n).last() == s.last());
        let (a, b, p) = (dval(s.subrange(0, k), r), dval(t.subrange(k, n - 1), r), ipow(r, n - 1 - k));
        assert(ipow(r, n - k) == r * p);
        assert((a * p + b) * r == a * (r * p) + b * r) by (nonlinear_arith);
    }
}
pub proof fn lemma_dval_split(s: Seq<u8>, k: int)
    requires 0 <= k <= s.len()
    ensures dval(s, 10) == dval(s.subrange(0, k), 10) * ipow(10, s.len() as int - k) + dval(s.subrange(k, s.len() as int), 10)
{ lemma_dval_split_r(s, k, 10); }
// one more digit
pub proof fn lemma_dval_push_r(s: Seq<u8>, k: int, r: int)
    requires 0 <= k < s.len()
    ensures dval(s.take(k + 1), r) == dval(s.take(k), r) * r + (s[k] as int - 48)
{
    assert(s.take(k + 1).drop_last() =~= s.take(k));
    assert(s.take(k + 1).last() == s[k]);
}
pub proof fn lemma_dval_push(s: Seq<u8>, k: int)
    requires 0 <= k < s.len()
    ensures dval(s.take(k + 1), 10) == dval(s.take(k), 10) * 10 + (s[k] as int - 48)
{ lemma_dval_push_r(s, k, 10); }
// 2^n as ipow
pub proof fn lemma_two_pow(n: int)
    requires n >= 0
    ensures ipow(2, n) == p2(n)
    decreases n
{
    if n == 0 { lemma2_to64(); assert(p2(0) == 1); } else { lemma_two_pow(n - 1); lemma_p2_step(n); }
}

// ---- hexadecimal: the digit value of a byte, and the digit string normalised to bytes 48 + value so that dval applies
pub open spec fn hexdigit(b: u8) -> bool { (48 <= b <= 57) || (65 <= b <= 70) || (97 <= b <= 102) }
pub open spec fn hv(b: u8) -> int { if b <= 57 { b as int - 48 } else if b <= 70 { b as int - 55 } else { b as int - 87 } }
pub open spec fn hex_digits(s: Seq<u8>) -> bool { forall|i: int| 0 <= i < s.len() ==> hexdigit(#[trigger] s[i]) }
pub open spec fn hn(s: Seq<u8>) -> Seq<u8> { Seq::new(s.len(), |i: int| (48 + hv(s[i])) as u8) }
pub proof fn lemma_hn(s: Seq<u8>)
    requires hex_digits(s)
    ensures digits_r(hn(s), 16), hn(s).len() == s.len(), forall|i: int| 0 <= i < s.len() ==> (#[trigger] hn(s)[i]) as int - 48 == hv(s[i]),
            s.len() > 0 && s[0] != 48 ==> hn(s)[0] != 48
{
    assert forall|i: int| 0 <= i < s.len() implies 48 <= #[trigger] hn(s)[i] < 48 + 16 && hn(s)[i] as int - 48 == hv(s[i]) by { assert(hexdigit(s[i])); }
    if s.len() > 0 && s[0] != 48 { assert(hexdigit(s[0])); }
}
// the value of the integer digits of a literal in radix 2, 8, 10 (ASCII digits) or 16 (hex digits)
pub open spec fn ival(s: Seq<u8>, radix: u32) -> int { if radix == 16 { dval(hn(s), 16) } else { dval(s, radix as int) } }
pub open spec fn int_digits_ok(s: Seq<u8>, radix: u32) -> bool { if radix == 16 { hex_digits(s) } else { digits_r(s, radix as int) } }
pub proof fn lemma_ival_facts(s: Seq<u8>, radix: u32)
    requires int_digits_ok(s, radix), radix == 2 || radix == 8 || radix == 10 || radix == 16
    ensures ival(s, radix) >= 0, s.len() == 0 ==> ival(s, radix) == 0, (s.len() > 0 && s[0] != 48) ==> ival(s, radix) >= 1,
            forall|i: int| 0 <= i < s.len() ==> #[trigger] s[i] >= 48
{
    if radix == 16 {
        lemma_hn(s); lemma_dval_bounds_r(hn(s), 16);
        if s.len() > 0 && s[0] != 48 { lemma_ipow_pos(16, s.len() as int - 1); }
        assert forall|i: int| 0 <= i < s.len() implies #[trigger] s[i] >= 48 by { assert(hexdigit(s[i])); }
    } else {
        lemma_dval_bounds_r(s, radix as int);
        if s.len() > 0 && s[0] != 48 { lemma_ipow_pos(radix as int, s.len() as int - 1); }
    }
}
// the first d digits of a decimal fraction as a d-digit numerator (padded with zeros when there are fewer)
pub open spec fn dpfx(s: Seq<u8>, d: int) -> int {
    if s.len() <= d { dval(s, 10) * ipow(10, d - s.len() as int) } else { dval(s.take(d), 10) }
}
pub proof fn lemma_dpfx_bound(s: Seq<u8>, d: int)
    requires dec_digits(s), d >= 0
    ensures 0 <= dpfx(s, d) < ipow(10, d)
{
    if s.len() <= d {
        lemma_dval_bounds(s);
        let (v, a, b) = (dval(s, 10), ipow(10, s.len() as int), ipow(10, d - s.len() as int));
        lemma_ipow_add(10, s.len() as int, d - s.len() as int); lemma_ipow_pos(10, d - s.len() as int);
        assert(v * b < a * b) by (nonlinear_arith) requires 0 <= v < a, b >= 1;
        assert(v * b >= 0) by (nonlinear_arith) requires 0 <= v, b >= 1;
    } else {
        let t = s.take(d);
        assert(dec_digits(t)) by { assert forall|i: int| 0 <= i < t.len() implies 48 <= #[trigger] t[i] < 48 + 10 by { assert(t[i] == s[i]); } }
        lemma_dval_bounds(t);
    }
}
pub proof fn lemma_ipow_add(b: int, m: int, n: int)
    requires m >= 0, n >= 0
    ensures ipow(b, m + n) == ipow(b, m) * ipow(b, n)
    decreases m
{
    if m == 0 { assert(ipow(b, 0) == 1); assert(1 * ipow(b, n) == ipow(b, n)) by (nonlinear_arith); }
    else { lemma_ipow_add(b, m - 1, n); assert(b * (ipow(b, m - 1) * ipow(b, n)) == (b * ipow(b, m - 1)) * ipow(b, n)) by (nonlinear_arith); }
}
pub proof fn lemma_ipow_mono(b: int, m: int, n: int)
    requires b >= 1, 0 <= m <= n
    ensures 1 <= ipow(b, m) <= ipow(b, n)
    decreases n - m
{
    lemma_ipow_pos(b, m);
    if m < n { lemma_ipow_mono(b, m + 1, n); assert(ipow(b, m + 1) == b * ipow(b, m)); assert(b * ipow(b, m) >= ipow(b, m)) by (nonlinear_arith) requires b >= 1, ipow(b, m) >= 1; }
}
// (2^g)^n = 2^(g n)
pub proof fn lemma_pow_radix(g: int, n: int)
    requires 1 <= g <= 4, n >= 0
    ensures ipow(p2(g), n) == p2(g * n)
    decreases n
{
    lemma2_to64();
    if n == 0 { assert(p2(0) == 1); assert(g * 0 == 0); } else { lemma_pow_radix(g, n - 1); lemma_p2_add(g, g * (n - 1)); assert(g + g * (n - 1) == g * n) by (nonlinear_arith);
        assert(g * (n - 1) >= 0) by (nonlinear_arith) requires g >= 1, n >= 1; }
}
