// ---- specs/normalize.rs: two-limb left shift (shared by wide_div normalize and the u128 dec_to_bin) ----
// normalisation identity: with c = 2^z, e = 2^(N-z), c * e = NN:
//   (n1 * NN + n0) * c == (n1 / e) * NN^2 + ((n1 * c) mod NN + n0 / e) * NN + (n0 * c) mod NN
pub proof fn lemma_normalize(n1: int, n0: int, z: int)
    requires 0 <= n1 < NN(), 0 <= n0 < NN(), 0 < z < 128, NN() == p2(128)
    ensures ({ let (c, e) = (p2(z), p2(128 - z)); let (n2, a1, b2, a0) = (n1 / e, wrap(false, 128, n1 * c), n0 / e, wrap(false, 128, n0 * c));
        &&& c * e == NN() &&& c > 0 &&& e > 0
        &&& n2 * NN() * NN() + (a1 + b2) * NN() + a0 == (n1 * NN() + n0) * c
        &&& 0 <= n2 < c &&& 0 <= a1 + b2 < NN() &&& 0 <= a0 < NN() &&& 0 <= b2 < c &&& 0 <= a1 < NN() })
{
    let (c, e) = (p2(z), p2(128 - z));
    lemma_p2_add(z, 128 - z); lemma_p2_pos(z); lemma_p2_pos(128 - z);
    lemma_fundamental_div_mod(n1, e); lemma_mod_bound(n1, e); lemma_fundamental_div_mod(n0, e); lemma_mod_bound(n0, e);
    let (n2, a, b2, b) = (n1 / e, n1 % e, n0 / e, n0 % e);
    assert(0 <= n2 < c) by (nonlinear_arith) requires n1 == e * n2 + a, 0 <= a < e, 0 <= n1 < c * e, e > 0;
    assert(0 <= b2 < c) by (nonlinear_arith) requires n0 == e * b2 + b, 0 <= b < e, 0 <= n0 < c * e, e > 0;
    assert(n1 * c == n2 * NN() + a * c && 0 <= a * c && a * c <= NN() - c) by (nonlinear_arith) requires n1 == e * n2 + a, 0 <= a < e, c * e == NN(), c > 0;
    assert(n0 * c == b2 * NN() + b * c && 0 <= b * c && b * c <= NN() - c) by (nonlinear_arith) requires n0 == e * b2 + b, 0 <= b < e, c * e == NN(), c > 0;
    assert(a * c == n1 * c + (-n2) * p2(128)) by (nonlinear_arith) requires n1 * c == n2 * NN() + a * c, NN() == p2(128);
    lemma_wrap_unique(false, 128, n1 * c, a * c, -n2);
    assert(b * c == n0 * c + (-b2) * p2(128)) by (nonlinear_arith) requires n0 * c == b2 * NN() + b * c, NN() == p2(128);
    lemma_wrap_unique(false, 128, n0 * c, b * c, -b2);
    assert(n2 * NN() * NN() + (a * c + b2) * NN() + b * c == (n1 * NN() + n0) * c) by (nonlinear_arith)
        requires n1 * c == n2 * NN() + a * c, n0 * c == b2 * NN() + b * c;
}

