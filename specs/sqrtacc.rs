// ---- specs/sqrtacc.rs: accuracy of sqrt's Newton iteration (C13) ----
// n = X * one is the operand in units of ulp^2; t = isqrt(n) is the integer square root (t^2 <= n < (t+1)^2).
pub open spec fn is_isqrt(n: int, t: int) -> bool { t >= 0 && t * t <= n < (t + 1) * (t + 1) }
pub open spec fn isqrt(n: int) -> int { choose|t: int| is_isqrt(n, t) }
pub proof fn lemma_isqrt_exists(n: int)
    requires n >= 0
    ensures is_isqrt(n, isqrt(n))
    decreases n
{
    if n == 0 { assert(is_isqrt(0, 0)); }
    else {
        lemma_isqrt_exists(n - 1);
        let t = isqrt(n - 1);
        if n < (t + 1) * (t + 1) { assert(is_isqrt(n, t)); }
        else {
            assert((t + 2) * (t + 2) > (t + 1) * (t + 1)) by (nonlinear_arith) requires t >= 0;
            assert(is_isqrt(n, t + 1));
        }
    }
}
// "r differs from the true square root of n by at most k": (r - k)^2 <= n <= (r + k)^2 (the lower bracket only when r >= k)
pub open spec fn sqrt_within(r: int, n: int, k: int) -> bool {
    r >= 0 && n <= (r + k) * (r + k) && (r >= k ==> (r - k) * (r - k) <= n)
}
// the distance to the root at least halves in every Newton step (or is already at most one)
pub open spec fn newton_err(x: int, l: int, one: int, i: int) -> bool {
    let t = isqrt(x * one);
    t <= l && (l - t <= 1 || (l - t) * p2(i) <= x / 2 + one)
}
pub proof fn lemma_newton_err_init(x: int, one: int)
    requires x >= one, one >= 1, newton_inv(x, x / 2 + one, one)
    ensures newton_err(x, x / 2 + one, one, 0)
{
    let n = x * one; let l = x / 2 + one;
    assert(n >= 0) by (nonlinear_arith) requires n == x * one, x >= 1, one >= 1;
    lemma_isqrt_exists(n);
    let t = isqrt(n);
    lemma2_to64();
    assert(t <= l) by (nonlinear_arith) requires (l + 1) * (l + 1) > n, t * t <= n, t >= 0, l >= 0;
    assert(t >= 0);
    assert((l - t) * p2(0) <= l) by (nonlinear_arith) requires p2(0) == 1, t >= 0;
}
pub proof fn lemma_newton_err_step(x: int, l: int, one: int, i: int)
    requires x >= one, one >= 1, i >= 0, newton_inv(x, l, one), newton_err(x, l, one, i),
             newton_inv(x, (l + (x * one) / l) / 2, one)
    ensures newton_err(x, (l + (x * one) / l) / 2, one, i + 1)
{
    let n = x * one;
    assert(n >= 0) by (nonlinear_arith) requires n == x * one, x >= 1, one >= 1;
    lemma_isqrt_exists(n);
    let t = isqrt(n);
    let q = n / l; let l2 = (l + q) / 2;
    lemma_fundamental_div_mod(n, l); lemma_mod_bound(n, l);
    let r = n % l;
    assert(n == l * q + r && 0 <= r < l);
    assert(t <= l2) by (nonlinear_arith) requires (l2 + 1) * (l2 + 1) > n, t * t <= n, t >= 0, l2 >= 0;
    let e = l - t;
    if e >= 1 {
        // n < (t+1)^2 <= (t+1) l  ==>  q <= t
        assert(q <= t) by (nonlinear_arith) requires n == l * q + r, r >= 0, n < (t + 1) * (t + 1), l >= t + 1, t >= 0, l > 0;
        assert(2 * (l2 - t) <= e);
        if e >= 2 {
            lemma_p2_step(i + 1); lemma_p2_pos(i);
            assert((l2 - t) * p2(i + 1) <= e * p2(i)) by (nonlinear_arith) requires 2 * (l2 - t) <= e, p2(i + 1) == 2 * p2(i), p2(i) > 0;
        }
    } else {
        // l == t: n <= t (t + 2)  ==>  q <= t + 2  ==>  l2 <= t + 1
        assert(q <= t + 2) by (nonlinear_arith) requires n == t * q + r, r >= 0, n < (t + 1) * (t + 1), t >= 1;
    }
}
pub proof fn lemma_newton_err_final(x: int, l: int, one: int, w: int)
    requires x >= one, one >= 1, w >= 0, newton_err(x, l, one, w), x / 2 + one < p2(w), l >= 1
    ensures sqrt_within(l, x * one, 1), isqrt(x * one) <= l <= isqrt(x * one) + 1
{
    let n = x * one;
    assert(n >= 0) by (nonlinear_arith) requires n == x * one, x >= 1, one >= 1;
    lemma_isqrt_exists(n);
    let t = isqrt(n);
    if l - t >= 2 {
        assert((l - t) * p2(w) >= 2 * p2(w)) by (nonlinear_arith) requires l - t >= 2, p2(w) > 0;
    }
    assert((l + 1) * (l + 1) >= (t + 1) * (t + 1)) by (nonlinear_arith) requires l >= t, t >= 0;
    assert((l - 1) * (l - 1) <= t * t) by (nonlinear_arith) requires l - 1 <= t, l >= 1;
}
// the reciprocal path: 0 < x < one, y = floor(one^2 / x) (the operand handed to Newton), L within one of isqrt(y one),
// r = floor(one^2 / L) is within 4 of sqrt(x one)
pub proof fn lemma_sqrt_invert(x: int, one: int, y: int, l: int, r: int)
    requires 0 < x < one, one >= 8,
             y == (one * one) / x,
             isqrt(y * one) <= l <= isqrt(y * one) + 1,
             r == (one * one) / l,
    ensures sqrt_within(r, x * one, 4)
{
    let oo = one * one;
    assert(oo >= 64) by (nonlinear_arith) requires oo == one * one, one >= 8;
    lemma_fundamental_div_mod(oo, x); lemma_mod_bound(oo, x);
    let ry = oo % x;
    assert(oo == x * y + ry && 0 <= ry < x);
    assert(y >= one) by (nonlinear_arith) requires oo == x * y + ry, ry < x, oo == one * one, 0 < x < one;
    let m = y * one;
    assert(m >= oo) by (nonlinear_arith) requires m == y * one, y >= one, oo == one * one, one >= 1;
    lemma_isqrt_exists(m);
    let u = isqrt(m);
    assert(u >= one) by (nonlinear_arith) requires (u + 1) * (u + 1) > m, m >= one * one, u >= 0, one >= 1;
    lemma_fundamental_div_mod(oo, l); lemma_mod_bound(oo, l);
    let rr = oo % l;
    assert(oo == l * r + rr && 0 <= rr < l);
    assert(r >= 0) by (nonlinear_arith) requires oo == l * r + rr, rr < l, oo >= 0, l > 0;
    assert(r <= one) by (nonlinear_arith) requires oo == l * r + rr, rr >= 0, oo == one * one, l >= one, one >= 1, r >= 0;
    let a = x * one;
    // (1) u^2 x <= one^3
    assert(u * u * x <= oo * one) by (nonlinear_arith) requires u * u <= m, m == y * one, oo == x * y + ry, ry >= 0, x > 0, one > 0;
    // upper bracket: a <= (r + 4)^2.  Otherwise (r+4)^2 u^2 < a u^2 <= one^4, so (r+4) u < one^2 < (r+1)(u+1)
    if (r + 4) * (r + 4) < a {
        assert((r + 4) * (r + 4) * (u * u) <= a * (u * u)) by (nonlinear_arith) requires (r + 4) * (r + 4) < a, u * u >= 0;
        assert((u * u * x) * one <= (oo * one) * one) by (nonlinear_arith) requires u * u * x <= oo * one, one > 0;
        assert(a * (u * u) == (u * u * x) * one && (oo * one) * one == oo * oo) by (nonlinear_arith) requires a == x * one, oo == one * one;
        assert(((r + 4) * u) * ((r + 4) * u) == (r + 4) * (r + 4) * (u * u)) by (nonlinear_arith);
        assert((r + 4) * u <= oo) by (nonlinear_arith) requires ((r + 4) * u) * ((r + 4) * u) <= oo * oo, (r + 4) * u >= 0, oo >= 0;
        assert((r + 4) * u >= 0) by (nonlinear_arith) requires r >= 0, u >= 0;
        assert(oo < (r + 1) * (u + 1)) by (nonlinear_arith) requires oo == l * r + rr, rr < l, l <= u + 1, r >= 0;
        assert((r + 4) * u == r * u + 4 * u && (r + 1) * (u + 1) == r * u + r + u + 1) by (nonlinear_arith);
        assert(false);
    }
    // lower bracket: r >= 4 ==> (r - 4)^2 <= a.  Otherwise a ((u+1)^2 + one) > one^4 >= r^2 u^2 and (r-4)(u+2) <= r u
    if r >= 4 && (r - 4) * (r - 4) > a {
        // one^2 < (y + 1) x  ==>  one^3 < (m + one) x <= ((u+1)^2 - 1 + one) x
        assert(oo * one < (m + one) * x) by (nonlinear_arith) requires oo == x * y + ry, ry < x, m == y * one, one > 0;
        assert((m + one) * x <= ((u + 2) * (u + 2)) * x) by (nonlinear_arith) requires m < (u + 1) * (u + 1), one <= u, x > 0, u >= 0;
        assert(oo * oo < ((u + 2) * (u + 2)) * a) by (nonlinear_arith) requires oo * one < ((u + 2) * (u + 2)) * x, a == x * one, oo == one * one, one > 0;
        assert(r * u <= oo) by (nonlinear_arith) requires oo == l * r + rr, rr >= 0, l >= u, r >= 0;
        assert((r - 4) * (u + 2) <= r * u) by (nonlinear_arith) requires r <= one, one <= u, r >= 4;
        assert(((u + 2) * (u + 2)) * a < ((u + 2) * (u + 2)) * ((r - 4) * (r - 4))) by (nonlinear_arith) requires a < (r - 4) * (r - 4), u >= 0;
        assert(((r - 4) * (u + 2)) * ((r - 4) * (u + 2)) == ((u + 2) * (u + 2)) * ((r - 4) * (r - 4))) by (nonlinear_arith);
        assert(((r - 4) * (u + 2)) * ((r - 4) * (u + 2)) <= (r * u) * (r * u)) by (nonlinear_arith) requires 0 <= (r - 4) * (u + 2) <= r * u;
        assert((r - 4) * (u + 2) >= 0) by (nonlinear_arith) requires r >= 4, u >= 0;
        assert((r * u) * (r * u) <= oo * oo) by (nonlinear_arith) requires 0 <= r * u <= oo;
        assert(r * u >= 0) by (nonlinear_arith) requires r >= 0, u >= 0;
        assert(false);
    }
}
pub proof fn lemma_sqrt_weaken(r: int, n: int, k: int, k2: int)
    requires sqrt_within(r, n, k), 0 <= k <= k2
    ensures sqrt_within(r, n, k2)
{
    assert((r + k) * (r + k) <= (r + k2) * (r + k2)) by (nonlinear_arith) requires r >= 0, 0 <= k <= k2;
    if r >= k2 { assert((r - k2) * (r - k2) <= (r - k) * (r - k)) by (nonlinear_arith) requires r >= k2, 0 <= k <= k2; }
}
pub proof fn lemma_sqrt_one(one: int)
    requires one >= 8
    ensures sqrt_within(one, one * one, 4)
{
    assert((one + 4) * (one + 4) >= one * one) by (nonlinear_arith) requires one >= 0;
    assert((one - 4) * (one - 4) <= one * one) by (nonlinear_arith) requires one >= 4;
}
