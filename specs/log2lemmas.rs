// ---- specs/log2lemmas.rs: integer facts behind log2_inner (C12 / C17) ----
// comparison of a bit pattern x (f fraction bits, one = 2^f) with the I9F23 constants ONE and TWO, as delivered by ax_cmp_const
pub proof fn lemma_log2_cmp(x: int, one: int)
    requires one >= 1
    ensures (x * p2(23) < 0x100_0000 * one) == (x < 2 * one), (x * p2(23) == 0x100_0000 * one) == (x == 2 * one),
            (x * p2(23) < 0x80_0000 * one) == (x < one), (x * p2(23) == 0x80_0000 * one) == (x == one)
{
    lemma2_to64();
    assert(p2(23) == 0x80_0000);
    assert(0x100_0000 * one == (2 * one) * 0x80_0000) by (nonlinear_arith);
    assert((x * 0x80_0000 < (2 * one) * 0x80_0000) == (x < 2 * one)) by (nonlinear_arith);
    assert((x * 0x80_0000 == (2 * one) * 0x80_0000) == (x == 2 * one)) by (nonlinear_arith);
    assert((x * 0x80_0000 < one * 0x80_0000) == (x < one)) by (nonlinear_arith);
    assert((x * 0x80_0000 == one * 0x80_0000) == (x == one)) by (nonlinear_arith);
    assert(0x80_0000 * one == one * 0x80_0000) by (nonlinear_arith);
}
// one rounding halving step of the integer-part loop: x >= 2.0, x < 2^(w-1-k) + 1  ==>  k + 1 <= w - f - 1 and
// one <= ceil(x / 2) < 2^(w-2-k) + 1
pub proof fn lemma_log2_halve(x: int, one: int, w: int, f: int, k: int)
    requires one == p2(f), 0 <= f, f + 9 <= w, 0 <= k <= w - f - 1, x >= 2 * one, x < p2(w - 1 - k) + 1
    ensures k + 1 <= w - f - 1, one <= x / 2 + x % 2, x / 2 + x % 2 < p2(w - 2 - k) + 1
{
    lemma_p2_pos(f); lemma_p2_step(f + 1);
    assert(2 * one == p2(f + 1));
    if w - 1 - k < f + 1 { lemma_p2_mono(w - 1 - k, f); }
    lemma_p2_step(w - 1 - k); lemma_p2_pos(w - 2 - k);
}
pub proof fn lemma_small_count(w: int, f: int, c: int)
    requires 0 <= c <= 129, w >= 32
    ensures fits(true, w, c)
{
    lemma_p2_mono(31, w - 1); lemma2_to64();
}
// squaring a value in [1, 2]: floor(x^2 / one) lies in [one, 4 one] and fits
pub proof fn lemma_log2_square(x: int, one: int, w: int, f: int)
    requires one == p2(f), 0 <= f, f + 9 <= w, one <= x <= 2 * one
    ensures one <= R_mul(x, x, f) <= 4 * one, fits(true, w, R_mul(x, x, f))
{
    lemma_p2_pos(f);
    let n = x * x;
    assert(one * one <= n <= (4 * one) * one) by (nonlinear_arith) requires n == x * x, one <= x <= 2 * one, one >= 1;
    lemma_fundamental_div_mod(n, one); lemma_mod_bound(n, one);
    assert(n / one >= one) by (nonlinear_arith) requires n == one * (n / one) + n % one, n % one < one, n >= one * one, one >= 1;
    assert(n / one <= 4 * one) by (nonlinear_arith) requires n == one * (n / one) + n % one, n % one >= 0, n <= (4 * one) * one, one >= 1;
    lemma_p2_add(w - f - 1, f); lemma_p2_mono(8, w - f - 1); lemma2_to64(); lemma_p2_pos(w - 1);
    assert(4 * one < p2(w - f - 1) * one) by (nonlinear_arith) requires p2(w - f - 1) >= 256, one >= 1;
}
// shifting the result accumulator left by one and setting its lowest bit keeps it below (cnt + 1) * 2^(i+1) < 2^(w-1)
pub proof fn lemma_log2_shift(rv: int, cnt: int, i: int, w: int, f: int)
    requires 0 <= i < f, f + 9 <= w, 0 <= cnt <= w - f - 1, 0 <= rv < (cnt + 1) * p2(i), w <= 128
    ensures wrap(true, w, rv * p2(1)) == 2 * rv, (2 * rv) % 2 == 0, 2 * rv + 1 < (cnt + 1) * p2(i + 1), fits(true, w, 2 * rv + 1), fits(true, w, 2 * rv)
{
    lemma2_to64(); lemma_p2_step(i + 1); lemma_p2_pos(i);
    assert(2 * rv + 2 <= (cnt + 1) * (2 * p2(i))) by (nonlinear_arith) requires rv + 1 <= (cnt + 1) * p2(i);
    // (cnt + 1) * 2^(i+1) <= (w - f) * 2^f < 2^(w-f-1) * 2^f
    lemma_p2_mono(i + 1, f); lemma_p2_pos(f);
    assert((cnt + 1) * p2(i + 1) <= (w - f) * p2(f)) by (nonlinear_arith) requires 0 <= cnt + 1 <= w - f, 0 < p2(i + 1) <= p2(f);
    lemma_n_lt_p2(w - f);
    lemma_p2_add(w - f - 1, f); lemma_p2_pos(w - 1);
    assert((w - f) * p2(f) <= p2(w - f - 1) * p2(f)) by (nonlinear_arith) requires w - f <= p2(w - f - 1), p2(f) > 0;
    lemma_wrap_id(true, w, 2 * rv);
    assert(p2(1) == 2);
    assert(rv * p2(1) == 2 * rv) by (nonlinear_arith) requires p2(1) == 2;
}
// n <= 2^(n-1) for n >= 1
pub proof fn lemma_n_lt_p2(n: int)
    requires n >= 1
    ensures n <= p2(n - 1)
    decreases n
{
    lemma2_to64();
    if n > 1 { lemma_n_lt_p2(n - 1); lemma_p2_step(n - 1); }
}
// ---- exact powers of two (C14: log2 of an exact power of two is exact) ----
pub open spec fn is_pow2(x: int) -> bool { exists|e: int| e >= 0 && x == #[trigger] p2(e) }
pub open spec fn ilog(x: int) -> int { choose|e: int| e >= 0 && x == #[trigger] p2(e) }
pub proof fn lemma_p2_lt(a: int, b: int)
    requires 0 <= a < b
    ensures p2(a) < p2(b)
{ lemma_pow2_strictly_increases(a as nat, b as nat); }
pub proof fn lemma_ilog(x: int, e: int)
    requires e >= 0, x == p2(e)
    ensures is_pow2(x), ilog(x) == e
{
    let e2 = ilog(x);
    if e2 < e { lemma_p2_lt(e2, e); } else if e < e2 { lemma_p2_lt(e, e2); }
}
pub proof fn lemma_ilog_of(x: int)
    requires is_pow2(x)
    ensures ilog(x) >= 0, x == p2(ilog(x))
{ }
// a power of two in [2^f, ...) has exponent >= f; one that is >= 2^(f+1) has exponent >= f + 1 and halves exactly
pub proof fn lemma_pow2_halve(e: int, f: int)
    requires e >= 0, f >= 0, p2(e) >= p2(f)
    ensures e >= f, p2(e) >= 2 * p2(f) ==> (e >= f + 1 && p2(e) / 2 + p2(e) % 2 == p2(e - 1)), p2(e) < 2 * p2(f) ==> e == f
{
    if e < f { lemma_p2_lt(e, f); }
    lemma_p2_pos(f); lemma_p2_step(f + 1);
    if e >= f + 1 { lemma_p2_step(e); lemma_p2_mono(f + 1, e); }
}
// the operand of log2 seen in the destination layout: a power of two stays one, and below one its reciprocal is the mirrored power
pub proof fn lemma_log2_pow2_args(xs: int, sf: int, df: int)
    requires 0 <= sf <= df, is_pow2(xs)
    ensures ({ let xb = xs * p2(df - sf); let e = ilog(xs);
               &&& is_pow2(xb) &&& ilog(xb) == e + df - sf
               &&& (xb < p2(df) ==> (e < sf && is_pow2(R_div(p2(df), xb, df)) && ilog(R_div(p2(df), xb, df)) == df + sf - e)) })
{
    lemma_ilog_of(xs);
    let e = ilog(xs); let xb = xs * p2(df - sf);
    lemma_p2_add(e, df - sf);
    lemma_ilog(xb, e + df - sf);
    if xb < p2(df) {
        if e + df - sf >= df { lemma_p2_mono(df, e + df - sf); }
        let k = df + sf - e;
        assert(e < sf);
        lemma_p2_add(df, df); lemma_p2_add(k, e + df - sf); lemma_p2_pos(e + df - sf); lemma_p2_pos(k);
        let num = p2(df) * p2(df);
        assert(k + (e + df - sf) == df + df);
        assert(num == p2(k) * xb);
        assert(num == xb * p2(k)) by (nonlinear_arith) requires num == p2(k) * xb;
        assert(num >= 0) by (nonlinear_arith) requires num == p2(k) * xb, p2(k) > 0, xb > 0;
        lemma_div_multiples_vanish(p2(k), xb);
        assert(num / xb == p2(k));
        assert(R_div(p2(df), xb, df) == p2(k));
        lemma_ilog(p2(k), k);
    }
}
// dividing by a positive constant keeps the sign (ln = log2 / LOG2_E)
pub proof fn lemma_rdiv_sign(a: int, b: int, f: int)
    requires b > 0, f >= 0
    ensures a >= 0 ==> R_div(a, b, f) >= 0, a <= 0 ==> R_div(a, b, f) <= 0
{
    lemma_p2_pos(f); let n = a * p2(f);
    if a >= 0 { assert(n >= 0) by (nonlinear_arith) requires n == a * p2(f), a >= 0, p2(f) > 0; lemma_div_pos_is_pos(n, b); }
    if a <= 0 { assert(-n >= 0) by (nonlinear_arith) requires n == a * p2(f), a <= 0, p2(f) > 0; lemma_div_pos_is_pos(-n, b); }
}
