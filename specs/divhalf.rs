// ---- specs/divhalf.rs (templated over BB, NN: the half-word and word bases): Knuth-D style half-word division ----
pub open spec fn BB() -> int { {{BB}}int }
pub open spec fn NN() -> int { {{NN}}int }
pub open spec fn hh(x: int) -> int { x / BB() }
pub open spec fn hl(x: int) -> int { x % BB() }

// all facts are expressions of (r, d, n) only (the head lemma of div_half)
pub proof fn lemma_div_half(r: int, d: int, n: int)
    requires 0 <= r < d, NN() / 2 <= d < NN(), 0 <= n < BB()
    ensures ({
        let dh = hh(d); let dl = hl(d); let q0 = r / dh; let rr = r % dh; let m = q0 * dl; let s = rr * BB() + n;
        let t = r * BB() + n;
        &&& dh >= BB() / 2 &&& dh < BB() &&& 0 <= dl < BB() &&& d == dh * BB() + dl
        &&& 0 <= q0 <= BB() + 1 &&& 0 <= rr < dh &&& 0 <= m < NN() &&& 0 <= s < NN()
        &&& t == q0 * d + s - m
        &&& m - s < 2 * d
        &&& (s >= m ==> s - m < d)
        &&& (q0 * d <= t + 2 * d)
        &&& t < d * BB()
        &&& (q0 - 1) * d == q0 * d - d
        &&& (q0 - 2) * d == q0 * d - 2 * d
        &&& (q0 * d <= t ==> q0 < BB())
        &&& ((q0 - 1) * d <= t ==> q0 - 1 < BB())
        &&& ((q0 - 2) * d <= t ==> q0 - 2 < BB())
    })
{
    let dh = hh(d); let dl = hl(d);
    assert(BB() * BB() == NN()) by (compute);
    lemma_fundamental_div_mod(d, BB()); lemma_mod_bound(d, BB());
    assert(d == BB() * dh + dl);
    assert(dh >= BB() / 2 && dh < BB()) by (nonlinear_arith)
        requires d == BB() * dh + dl, 0 <= dl < BB(), NN() / 2 <= d < NN(), NN() == BB() * BB(), BB() == {{BB}}int;
    let q0 = r / dh; let rr = r % dh;
    lemma_fundamental_div_mod(r, dh); lemma_mod_bound(r, dh);
    assert(r == dh * q0 + rr);
    assert(q0 >= 0) by (nonlinear_arith) requires r == dh * q0 + rr, 0 <= rr < dh, r >= 0, dh > 0;
    assert(q0 <= BB() + 1) by (nonlinear_arith)
        requires r == dh * q0 + rr, 0 <= rr, r < d, d == BB() * dh + dl, dl < BB(), 2 * dh >= BB(), dh > 0, BB() > 0;
    let m = q0 * dl; let s = rr * BB() + n; let t = r * BB() + n;
    assert(0 <= m < NN()) by (nonlinear_arith) requires m == q0 * dl, 0 <= q0 <= BB() + 1, 0 <= dl < BB(), NN() == BB() * BB(), BB() > 1;
    assert(0 <= s < NN()) by (nonlinear_arith) requires s == rr * BB() + n, 0 <= rr < dh, dh < BB(), 0 <= n < BB(), NN() == BB() * BB();
    assert(t == q0 * d + s - m) by (nonlinear_arith)
        requires t == r * BB() + n, r == dh * q0 + rr, s == rr * BB() + n, m == q0 * dl, d == BB() * dh + dl;
    assert(m - s < 2 * d);
    assert(t < (q0 + 1) * d) by (nonlinear_arith)
        requires t == r * BB() + n, n < BB(), r == dh * q0 + rr, rr < dh, d == BB() * dh + dl, dl >= 0, q0 >= 0, BB() > 0, dh > 0;
    assert((q0 + 1) * d == q0 * d + d) by (nonlinear_arith);
    assert(t < d * BB()) by (nonlinear_arith) requires t == r * BB() + n, r < d, n < BB(), BB() > 0;
    assert((q0 - 1) * d == q0 * d - d) by (nonlinear_arith);
    assert((q0 - 2) * d == q0 * d - 2 * d) by (nonlinear_arith);
    assert(q0 * d <= t ==> q0 < BB()) by (nonlinear_arith) requires t < d * BB(), d > 0;
    assert((q0 - 1) * d <= t ==> q0 - 1 < BB()) by (nonlinear_arith) requires t < d * BB(), d > 0;
    assert((q0 - 2) * d <= t ==> q0 - 2 < BB()) by (nonlinear_arith) requires t < d * BB(), d > 0;
}

// four half-word steps give the full quotient (telescoping sum)
pub proof fn lemma_four_steps(d: int, n2: int, a3: int, a2: int, a1: int, a0: int, q3: int, q2: int, q1: int, q0: int, r1: int, r2: int, r3: int, r4: int)
    requires n2 * BB() + a3 == q3 * d + r1, r1 * BB() + a2 == q2 * d + r2, r2 * BB() + a1 == q1 * d + r3, r3 * BB() + a0 == q0 * d + r4
    ensures n2 * NN() * NN() + (a3 * BB() + a2) * NN() + (a1 * BB() + a0) == ((q3 * BB() + q2) * NN() + (q1 * BB() + q0)) * d + r4
{
    assert(BB() * BB() == NN()) by (compute);
    let b = BB();
    assert(n2 * (b * b) * (b * b) + (a3 * b + a2) * (b * b) + (a1 * b + a0) == ((q3 * b + q2) * (b * b) + (q1 * b + q0)) * d + r4) by (nonlinear_arith)
        requires n2 * b + a3 == q3 * d + r1, r1 * b + a2 == q2 * d + r2, r2 * b + a1 == q1 * d + r3, r3 * b + a0 == q0 * d + r4;
}

//@include specs/normalize.rs
// un-normalisation: n * c == Q * (d * c) + r4 with r4 < d * c  ==>  n == Q * d + r4 / c, r4 / c < d, Q == n / d
pub proof fn lemma_unnormalize(n: int, d: int, c: int, q: int, r4: int)
    requires n * c == q * (d * c) + r4, 0 <= r4 < d * c, c > 0, d > 0, n >= 0
    ensures n == q * d + r4 / c, 0 <= r4 / c < d, q == n / d, r4 / c == n % d, q >= 0
{
    let r0 = n - q * d;
    assert(r4 == c * r0) by (nonlinear_arith) requires n * c == q * (d * c) + r4, r0 == n - q * d;
    assert(0 <= r0 < d) by (nonlinear_arith) requires r4 == c * r0, 0 <= r4 < d * c, c > 0;
    lemma_fundamental_div_mod_converse_div(r4, c, r0, 0);
    lemma_fundamental_div_mod_converse(n, d, q, r0);
    assert(q >= 0) by (nonlinear_arith) requires n == q * d + r0, 0 <= r0 < d, n >= 0, d > 0;
}
