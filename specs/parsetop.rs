// ---- specs/parsetop.rs: arithmetic behind the recombination layer of from_str.rs (C08) ----
// get_int: the parsed integer a = v mod 2^w is moved to the top n bits: (a * 2^(w-n)) mod 2^w == (v mod 2^n) * 2^(w-n), and the
// digits overflow n bits iff v >= 2^n
pub proof fn lemma_get_int(v: int, w: int, n: int)
    requires v >= 0, 0 < n < w
    ensures ({ let a = v % p2(w);
               &&& (a * p2(w - n)) % p2(w) == (v % p2(n)) * p2(w - n)
               &&& ((v >= p2(w)) || (a / p2(n) != 0)) == (v >= p2(n))
               &&& 0 <= a < p2(w) &&& 0 <= (v % p2(n)) * p2(w - n) < p2(w) })
{
    let pw = p2(w); let pn = p2(n); let pr = p2(w - n); let a = v % pw;
    lemma_p2_pos(w); lemma_p2_pos(n); lemma_p2_pos(w - n); lemma_p2_add(n, w - n);
    lemma_mod_bound(v, pw); lemma_fundamental_div_mod(v, pw);
    // a mod 2^n == v mod 2^n
    lemma_mod_mod(v, pn, pr);
    assert(a % pn == v % pn);
    lemma_fundamental_div_mod(a, pn); lemma_mod_bound(a, pn);
    let (q, r) = (a / pn, a % pn);
    assert(q >= 0) by (nonlinear_arith) requires a == pn * q + r, r < pn, a >= 0, pn > 0;
    assert(a * pr == pw * q + r * pr && 0 <= r * pr && r * pr < pw) by (nonlinear_arith) requires a == pn * q + r, 0 <= r < pn, pw == pn * pr, pr > 0;
    lemma_fundamental_div_mod_converse(a * pr, pw, q, r * pr);
    // overflow flag
    if v < pw { lemma_small_mod(v as nat, pw as nat); }
    lemma_p2_mono(n, w);
    assert((q != 0) == (a >= pn)) by (nonlinear_arith) requires a == pn * q + r, 0 <= r < pn, q >= 0, pn > 0;
}
// the half-width delegation: a value already placed in the top n bits of the half word, widened and moved up by the half width
pub proof fn lemma_get_int_half(x: int, n: int, h: int)
    requires 0 <= x < p2(n), 0 <= n <= h
    ensures (x * p2(h - n)) * p2(h) == x * p2(2 * h - n), 0 <= (x * p2(h - n)) * p2(h) < p2(2 * h), 0 <= x * p2(h - n) < p2(h)
{
    lemma_p2_add(h - n, h); lemma_p2_add(n, 2 * h - n); lemma_p2_add(n, h - n); lemma_p2_pos(h - n); lemma_p2_pos(h); lemma_p2_pos(2 * h - n);
    assert((x * p2(h - n)) * p2(h) == x * (p2(h - n) * p2(h))) by (nonlinear_arith);
    assert(x * p2(2 * h - n) < p2(n) * p2(2 * h - n)) by (nonlinear_arith) requires x < p2(n), p2(2 * h - n) > 0;
    assert(x * p2(2 * h - n) >= 0) by (nonlinear_arith) requires x >= 0, p2(2 * h - n) > 0;
    assert(x * p2(h - n) < p2(n) * p2(h - n)) by (nonlinear_arith) requires x < p2(n), p2(h - n) > 0;
    assert(x * p2(h - n) >= 0) by (nonlinear_arith) requires x >= 0, p2(h - n) > 0;
}
// recombination: with iv = q * 2^i + m (m = iv mod 2^i), t in 0 ..= 2^f, w = i + f:
//   A = iv * 2^f + t  ==  q * 2^w + (m * 2^f + t),   m * 2^f + t <= 2^w
// so A mod 2^w and A >= 2^w are read off the low part
pub proof fn lemma_recombine(iv: int, i: int, f: int, t: int)
    requires iv >= 0, i >= 0, f >= 0, 0 <= t <= p2(f)
    ensures ({ let w = i + f; let m = iv % p2(i); let low = m * p2(f) + t; let a = iv * p2(f) + t;
               &&& 0 <= m < p2(i) &&& 0 <= m * p2(f) && m * p2(f) + p2(f) <= p2(w) &&& 0 <= low <= p2(w)
               &&& a % p2(w) == low % p2(w)
               &&& (a >= p2(w)) == ((iv >= p2(i)) || low >= p2(w))
               &&& (m * p2(f)) % p2(f) == 0 })
{
    let w = i + f; let pi = p2(i); let pf = p2(f); let pw = p2(w);
    lemma_p2_pos(i); lemma_p2_pos(f); lemma_p2_pos(w); lemma_p2_add(i, f);
    lemma_fundamental_div_mod(iv, pi); lemma_mod_bound(iv, pi);
    let q = iv / pi; let m = iv % pi; let low = m * pf + t; let a = iv * pf + t;
    assert(q >= 0) by (nonlinear_arith) requires iv == pi * q + m, m < pi, iv >= 0, pi > 0;
    assert(m * pf >= 0 && m * pf + pf <= pw) by (nonlinear_arith) requires 0 <= m < pi, pw == pi * pf, pf > 0;
    assert(a == q * pw + low) by (nonlinear_arith) requires iv == pi * q + m, pw == pi * pf, a == iv * pf + t, low == m * pf + t;
    lemma_mod_multiples_vanish(q, low, pw);
    assert(pw * q == q * pw) by (nonlinear_arith);
    assert((q >= 1) == (iv >= pi)) by (nonlinear_arith) requires iv == pi * q + m, 0 <= m < pi, q >= 0, pi > 0;
    if q >= 1 { assert(a >= pw) by (nonlinear_arith) requires a == q * pw + low, q >= 1, low >= 0, pw > 0; }
    else { assert(q == 0); assert(a == low) by (nonlinear_arith) requires a == q * pw + low, q == 0; }
    lemma_mod_multiples_basic(m, pf);
}
// parity of the wrapped integer digits when there are no fraction bits
pub proof fn lemma_parity_mod(iv: int, w: int)
    requires iv >= 0, w >= 1
    ensures (iv % p2(w)) % 2 == iv % 2
{
    lemma_p2_step(w); lemma_p2_pos(w - 1);
    lemma_mod_mod(iv, 2, p2(w - 1));
}
// a magnitude a >= 0 with its sign: facts about a mod 2^w used by the sign / overflow logic of from_str_{i,u}N
pub proof fn lemma_sign_wrap(s: bool, w: int, a: int)
    requires a >= 0, w >= 1
    ensures 0 <= a % p2(w) < p2(w), (a >= p2(w)) ==> !fits(s, w, a) && !fits(s, w, -a),
            a < p2(w) ==> a % p2(w) == a,
            wrap(false, w, a) == a % p2(w),
            wrap(s, w, -a) == wrap(s, w, -(a % p2(w))), wrap(s, w, a) == wrap(s, w, a % p2(w))
{
    lemma_p2_pos(w); lemma_p2_step(w); lemma_p2_pos(w - 1);
    lemma_mod_bound(a, p2(w)); lemma_fundamental_div_mod(a, p2(w));
    if a < p2(w) { lemma_small_mod(a as nat, p2(w) as nat); }
    let q = a / p2(w);
    assert(p2(w) * q == q * p2(w)) by (nonlinear_arith);
    lemma_wrap_shift(s, w, a % p2(w), q);
    lemma_wrap_shift(s, w, -(a % p2(w)), -q);
    assert(-(a % p2(w)) + (-q) * p2(w) == -a) by (nonlinear_arith) requires a == p2(w) * q + a % p2(w);
    assert(a % p2(w) + q * p2(w) == a) by (nonlinear_arith) requires a == p2(w) * q + a % p2(w);
}
// the whole recombination step of get_int_frac, on integers: val0 = placed integer digits + rounded fraction (0 when the fraction
// rounded up to one), then the conditional carry 2^f with its overflow
pub proof fn lemma_int_frac_final(iv: int, ii: int, ff: int, fr: int, tie: bool, val0: int, val: int, ov0: bool, ov: bool)
    requires iv >= 0, ii >= 0, ff >= 0, 0 <= fr <= p2(ff), tie ==> (ff == 0 && fr == 0),
             val0 == (iv % p2(ii)) * p2(ff) + (if fr == p2(ff) { 0int } else { fr }), ov0 == (iv >= p2(ii)),
             (fr == p2(ff) || tie) ==> (if ii == 0 { val == val0 && ov } else { val == (val0 + p2(ff)) % p2(ii + ff) && ov == (ov0 || val0 + p2(ff) >= p2(ii + ff)) }),
             !(fr == p2(ff) || tie) ==> val == val0 && ov == ov0
    ensures ({ let a = iv * p2(ff) + fr + (if tie { 1int } else { 0int }); val == a % p2(ii + ff) && ov == (a >= p2(ii + ff)) })
{
    let w = ii + ff; let pf = p2(ff); let pw = p2(w); let m = iv % p2(ii);
    lemma_p2_pos(ff); lemma_p2_pos(w); lemma_p2_pos(ii);
    let t = fr + (if tie { 1int } else { 0int });
    if tie { lemma2_to64(); assert(pf == 1); }
    lemma_recombine(iv, ii, ff, t);
    let low = m * pf + t;
    if fr == pf || tie {
        if ii == 0 {
            lemma2_to64(); assert(p2(0) == 1); assert(m == 0); assert(0 * pf == 0);
            // ii == 0 excludes the tie (ff == w >= ... only matters that low == 2^w resp. t == pf)
            if tie { assert(ff == 0); assert(pw == 1); lemma_mod_multiples_basic(low, 1); assert(low == 1 * low); }
            else { assert(low == pw); lemma_mod_multiples_basic(1, pw); assert(1 * pw == pw); }
            assert(val0 == 0);
        } else {
            assert(val0 + pf == low);
        }
    } else {
        assert(val0 == low && low < pw) by (nonlinear_arith) requires val0 == m * pf + fr, low == m * pf + fr, fr < pf, m * pf + pf <= pw;
        lemma_small_mod(low as nat, pw as nat);
    }
}
