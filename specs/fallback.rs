// ---- specs/fallback.rs: arithmetic of the four-limb (schoolbook) 128-bit product and its recombination ----
pub open spec fn C64() -> int { 0x1_0000_0000_0000_0000int }
pub open spec fn M128() -> int { 0x1_0000_0000_0000_0000_0000_0000_0000_0000int }
pub open spec fn hi64(x: int) -> int { x / C64() }
pub open spec fn lo64(x: int) -> int { x % C64() }

pub proof fn lemma_hi_lo64(x: int)
    ensures hi64(x) * C64() + lo64(x) == x, 0 <= lo64(x) < C64(),
            (0 <= x < M128() ==> 0 <= hi64(x) < C64()),
            (-M128() <= 2 * x < M128() ==> -C64() <= 2 * hi64(x) < C64()),
{
    lemma_fundamental_div_mod(x, C64()); lemma_mod_bound(x, C64());
    assert(C64() * C64() == M128()) by (compute);
    assert(C64() * hi64(x) == hi64(x) * C64()) by (nonlinear_arith);
    if 0 <= x < M128() {
        assert(0 <= hi64(x) < C64()) by (nonlinear_arith) requires x == hi64(x) * C64() + lo64(x), 0 <= lo64(x) < C64(), 0 <= x < C64() * C64(), C64() > 0;
    }
    if -M128() <= 2 * x < M128() {
        assert(-C64() <= 2 * hi64(x) < C64()) by (nonlinear_arith) requires x == hi64(x) * C64() + lo64(x), 0 <= lo64(x) < C64(), -(C64() * C64()) <= 2 * x < C64() * C64(), C64() > 0;
    }
}

// limb products of two w=128 values (signed: hi limb signed, lo limb in [0, 2^64))
pub proof fn lemma_limb_products(s: bool, a: int, b: int)
    requires fits(s, 128, a), fits(s, 128, b)
    ensures ({ let (ah, al, bh, bl) = (hi64(a), lo64(a), hi64(b), lo64(b));
        &&& a == ah * C64() + al &&& b == bh * C64() + bl &&& 0 <= al < C64() &&& 0 <= bl < C64()
        &&& (s ==> -C64() <= 2 * ah < C64() && -C64() <= 2 * bh < C64()) &&& (!s ==> 0 <= ah < C64() && 0 <= bh < C64())
        &&& 0 <= al * bl <= (C64() - 1) * (C64() - 1)
        &&& (!s ==> 0 <= ah * bl <= (C64() - 1) * (C64() - 1) && 0 <= al * bh <= (C64() - 1) * (C64() - 1) && 0 <= ah * bh <= (C64() - 1) * (C64() - 1))
        &&& (s ==> -(C64() / 2) * (C64() - 1) <= ah * bl <= (C64() / 2 - 1) * (C64() - 1) && -(C64() / 2) * (C64() - 1) <= al * bh <= (C64() / 2 - 1) * (C64() - 1)
                   && -(C64() / 2) * (C64() / 2 - 1) <= ah * bh <= (C64() / 2) * (C64() / 2))
        &&& a * b == (ah * bh) * M128() + (ah * bl + al * bh) * C64() + al * bl })
{
    let (ah, al, bh, bl) = (hi64(a), lo64(a), hi64(b), lo64(b));
    lemma_p2_consts();
    lemma_hi_lo64(a); lemma_hi_lo64(b);
    assert(C64() * C64() == M128()) by (compute);
    assert(0 <= al * bl <= (C64() - 1) * (C64() - 1)) by (nonlinear_arith) requires 0 <= al < C64(), 0 <= bl < C64();
    if !s {
        assert(0 <= ah * bl <= (C64() - 1) * (C64() - 1)) by (nonlinear_arith) requires 0 <= ah < C64(), 0 <= bl < C64();
        assert(0 <= al * bh <= (C64() - 1) * (C64() - 1)) by (nonlinear_arith) requires 0 <= al < C64(), 0 <= bh < C64();
        assert(0 <= ah * bh <= (C64() - 1) * (C64() - 1)) by (nonlinear_arith) requires 0 <= ah < C64(), 0 <= bh < C64();
    } else {
        let h = C64() / 2;
        assert(-h <= ah < h && -h <= bh < h && C64() == 2 * h);
        assert(-h * (C64() - 1) <= ah * bl <= (h - 1) * (C64() - 1)) by (nonlinear_arith) requires -h <= ah < h, 0 <= bl < C64(), h > 0;
        assert(-h * (C64() - 1) <= al * bh <= (h - 1) * (C64() - 1)) by (nonlinear_arith) requires -h <= bh < h, 0 <= al < C64(), h > 0;
        assert(-h * (h - 1) <= ah * bh <= h * h) by (nonlinear_arith) requires -h <= ah < h, -h <= bh < h, h > 0;
    }
    assert(a * b == (ah * bh) * M128() + (ah * bl + al * bh) * C64() + al * bl) by (nonlinear_arith)
        requires a == ah * C64() + al, b == bh * C64() + bl, M128() == C64() * C64();
}

// recombination: the columns computed by mul_overflow add up to the exact product
pub proof fn lemma_columns(ab: int, hh: int, hl: int, lh: int, ll: int, c01h: int, c01l: int, p12: int, col12: int, carry: int, c12h: int, c12l: int)
    requires ab == hh * M128() + (hl + lh) * C64() + ll, ll == c01h * C64() + c01l, p12 == hl + c01h,
             p12 + lh == col12 + carry * M128(), col12 == c12h * C64() + c12l
    ensures ab == (hh + c12h + carry * C64()) * M128() + (c12l * C64() + c01l)
{
    assert(C64() * C64() == M128()) by (compute);
    assert(ab == (hh + c12h + carry * C64()) * M128() + (c12l * C64() + c01l)) by (nonlinear_arith)
        requires ab == hh * M128() + (hl + lh) * C64() + ll, ll == c01h * C64() + c01l, p12 == hl + c01h,
                 p12 + lh == col12 + carry * M128(), col12 == c12h * C64() + c12l, M128() == C64() * C64();
}

// (hi * 2^128 + lo) / 2^sh  for 0 < sh < 128, with lo in [0, 2^128)
pub proof fn lemma_combine(hi: int, lo: int, sh: int)
    requires 0 < sh < 128, 0 <= lo < M128()
    ensures (hi * M128() + lo) / p2(sh) == hi * p2(128 - sh) + lo / p2(sh), 0 <= lo / p2(sh) < p2(128 - sh),
            p2(sh) * p2(128 - sh) == M128(), p2(sh) > 0, p2(128 - sh) > 0
{
    lemma_p2_consts(); lemma_p2_add(sh, 128 - sh); lemma_p2_pos(sh); lemma_p2_pos(128 - sh);
    let (d, e) = (p2(sh), p2(128 - sh));
    lemma_fundamental_div_mod(lo, d); lemma_mod_bound(lo, d);
    let (q, r) = (lo / d, lo % d);
    assert(0 <= q < e) by (nonlinear_arith) requires lo == d * q + r, 0 <= r < d, 0 <= lo < d * e, d > 0;
    assert(hi * M128() + lo == d * (hi * e + q) + r) by (nonlinear_arith) requires lo == d * q + r, M128() == d * e;
    lemma_fundamental_div_mod_converse_div(hi * M128() + lo, d, hi * e + q, r);
}

// X = H * 2^128 + L with L in [0, 2^128): the signed 128-bit wrap of X is the reinterpretation of L, and X fits
// exactly when H is the sign extension of L
pub proof fn lemma_sign_ext(hh: int, ll: int)
    requires 0 <= ll < M128()
    ensures wrap(true, 128, hh * M128() + ll) == wrap(true, 128, ll),
            wrap(true, 128, ll) == (if ll >= M128() / 2 { ll - M128() } else { ll }),
            fits(true, 128, hh * M128() + ll) == (hh == (if ll >= M128() / 2 { -1int } else { 0int })),
            wrap(false, 128, hh * M128() + ll) == ll,
            hh >= 0 ==> (fits(false, 128, hh * M128() + ll) == (hh == 0)),
{
    lemma_p2_consts();
    lemma_wrap_shift(true, 128, ll, hh);
    lemma_wrap_shift(false, 128, ll, hh);
    lemma_wrap_id(false, 128, ll);
    if ll >= M128() / 2 { lemma_wrap_unique(true, 128, ll, ll - M128(), -1); } else { lemma_wrap_id(true, 128, ll); }
    assert((-(M128() / 2) <= hh * M128() + ll && hh * M128() + ll < M128() / 2) == (hh == (if ll >= M128() / 2 { -1int } else { 0int }))) by (nonlinear_arith)
        requires 0 <= ll < M128(), M128() == 0x1_0000_0000_0000_0000_0000_0000_0000_0000int;
    if hh >= 0 {
        assert((hh * M128() + ll <= M128() - 1) == (hh == 0)) by (nonlinear_arith) requires 0 <= ll < M128(), hh >= 0, M128() > 0;
        assert(hh * M128() + ll >= 0) by (nonlinear_arith) requires 0 <= ll, hh >= 0, M128() > 0;
    }
}
// (h * 2^128 + l) / 2^sh = sh_ * 2^128 + (sl * 2^(128-sh) + l / 2^sh) with sh_ = floor(h / 2^sh), sl = h mod 2^sh
pub proof fn lemma_combine_split(h: int, l: int, sh: int)
    requires 0 < sh < 128, 0 <= l < M128()
    ensures ({ let (d, e) = (p2(sh), p2(128 - sh)); let (hq, hr, q) = (h / d, h % d, l / d);
        &&& (h * M128() + l) / d == hq * M128() + (hr * e + q) &&& 0 <= hr * e + q < M128() &&& 0 <= hr < d &&& 0 <= q < e
        &&& d * e == M128() &&& d > 0 &&& e > 0 &&& 0 <= hr * e < M128() &&& (h >= 0 ==> hq >= 0) })
{
    lemma_combine(h, l, sh);
    let (d, e) = (p2(sh), p2(128 - sh)); let (hq, hr, q) = (h / d, h % d, l / d);
    lemma_fundamental_div_mod(h, d); lemma_mod_bound(h, d);
    assert(h * e + q == hq * M128() + (hr * e + q) && 0 <= hr * e + q < M128() && 0 <= hr * e < M128()) by (nonlinear_arith)
        requires h == d * hq + hr, 0 <= hr < d, 0 <= q < e, d * e == M128();
    assert(h >= 0 ==> hq >= 0) by (nonlinear_arith) requires h == d * hq + hr, 0 <= hr < d, d > 0;
}

// ranges of the four limb products, stated on the limbs themselves (so that the solver sees the same product terms)
pub proof fn lemma_limb_ranges(s: bool, ah: int, al: int, bh: int, bl: int)
    requires 0 <= al < C64(), 0 <= bl < C64(), s ==> (-C64() <= 2 * ah < C64() && -C64() <= 2 * bh < C64()), !s ==> (0 <= ah < C64() && 0 <= bh < C64())
    ensures 0 <= al * bl < M128(), s ==> (-M128() <= 2 * (ah * bl) < M128() && -M128() <= 2 * (al * bh) < M128() && -M128() <= 4 * (ah * bh) <= M128()),
            !s ==> (0 <= ah * bl < M128() && 0 <= al * bh < M128() && 0 <= ah * bh < M128()),
            (ah * C64() + al) * (bh * C64() + bl) == (ah * bh) * M128() + (ah * bl + al * bh) * C64() + al * bl
{
    assert(C64() * C64() == M128()) by (compute);
    let c = C64();
    assert(0 <= al * bl < c * c) by (nonlinear_arith) requires 0 <= al < c, 0 <= bl < c;
    if s {
        assert(-(c * c) <= 2 * (ah * bl) < c * c) by (nonlinear_arith) requires -c <= 2 * ah < c, 0 <= bl < c;
        assert(-(c * c) <= 2 * (al * bh) < c * c) by (nonlinear_arith) requires -c <= 2 * bh < c, 0 <= al < c;
        assert(-(c * c) <= 4 * (ah * bh) <= c * c) by (nonlinear_arith) requires -c <= 2 * ah < c, -c <= 2 * bh < c, c > 4;
    } else {
        assert(0 <= ah * bl < c * c) by (nonlinear_arith) requires 0 <= ah < c, 0 <= bl < c;
        assert(0 <= al * bh < c * c) by (nonlinear_arith) requires 0 <= al < c, 0 <= bh < c;
        assert(0 <= ah * bh < c * c) by (nonlinear_arith) requires 0 <= ah < c, 0 <= bh < c;
    }
    let (x, y) = (ah * c, bh * c); let bb = y + bl;
    assert((x + al) * bb == x * bb + al * bb) by (nonlinear_arith);
    assert(x * bb == x * y + x * bl) by (nonlinear_arith) requires bb == y + bl;
    assert(al * bb == al * y + al * bl) by (nonlinear_arith) requires bb == y + bl;
    assert(x * y == (ah * bh) * (c * c)) by (nonlinear_arith) requires x == ah * c, y == bh * c;
    assert(x * bl == (ah * bl) * c) by (nonlinear_arith) requires x == ah * c;
    assert(al * y == (al * bh) * c) by (nonlinear_arith) requires y == bh * c;
    assert((ah * bl + al * bh) * c == (ah * bl) * c + (al * bh) * c) by (nonlinear_arith);
}

// the dividend (a >> (128 - f), (a << f) mod 2^128) is a * 2^f, for 0 < f <= 128
pub proof fn lemma_div_dividend(s: bool, a: int, f: int)
    requires fits(s, 128, a), 0 < f <= 128
    ensures ({ let hi = a / p2(128 - f); let lo = wrap(false, 128, a * p2(f));
               &&& hi * M128() + lo == a * p2(f) &&& 0 <= lo < M128() &&& fits(s, 128, hi) &&& p2(f) > 0
               &&& fits(s, 256, a * p2(f)) })
{
    lemma_p2_consts(); lemma_p2_pos(f); lemma_p2_pos(128 - f); lemma_p2_add(f, 128 - f); lemma_p2_add(128, 128); lemma_p2_add(127, 128); lemma_p2_step(256);
    lemma_p2_mono(f, 128);
    let (d, e) = (p2(f), p2(128 - f));
    lemma_fundamental_div_mod(a, e); lemma_mod_bound(a, e);
    let (hi, r) = (a / e, a % e);
    assert(a * d == hi * M128() + r * d && 0 <= r * d < M128()) by (nonlinear_arith) requires a == e * hi + r, 0 <= r < e, d * e == M128(), d > 0;
    lemma_wrap_unique(false, 128, a * d, r * d, -hi);
    assert(r * d == a * d + (-hi) * M128()) by (nonlinear_arith) requires a * d == hi * M128() + r * d;
    if s {
        assert(-p2(127) <= hi < p2(127)) by (nonlinear_arith) requires a == e * hi + r, 0 <= r < e, -p2(127) <= a < p2(127), e >= 1;
        assert(-p2(255) <= a * d < p2(255)) by (nonlinear_arith) requires -p2(127) <= a < p2(127), 1 <= d <= M128(), p2(255) == p2(127) * M128(), p2(127) > 0;
    } else {
        assert(0 <= hi < M128()) by (nonlinear_arith) requires a == e * hi + r, 0 <= r < e, 0 <= a < M128(), e >= 1;
        assert(0 <= a * d < p2(256)) by (nonlinear_arith) requires 0 <= a < M128(), 1 <= d <= M128(), p2(256) == M128() * M128();
    }
    lemma_p2_mono(f, 128);
}
// result of the 128-bit division: low word reinterpreted, overflow iff the high word is not its sign extension
pub proof fn lemma_div_result(s: bool, a: int, b: int, f: int, q1: int, q0: int)
    requires fits(s, 128, a), fits(s, 128, b), b != 0, 0 < f <= 128, 0 <= q0 < M128(),
             q1 * M128() + q0 == wrap(s, 256, tz(a * p2(f), b))
    ensures wrap(s, 128, q0) == wrap(s, 128, R_div(a, b, f)),
            s ==> ((q1 != (if wrap(true, 128, q0) < 0 { -1int } else { 0int })) == !fits(true, 128, R_div(a, b, f))),
            !s ==> ((q1 != 0) == !fits(false, 128, R_div(a, b, f)))
{
    lemma_p2_consts(); lemma_p2_add(128, 128); lemma_p2_add(127, 128); lemma_p2_step(256);
    lemma_div_dividend(s, a, f);
    let n = a * p2(f); let r = tz(n, b);
    lemma_tz_bounds(n, b);
    let k = lemma_wrap_diff(s, 256, r);
    let qq = q1 * M128() + q0;
    assert(qq == r - k * p2(256));
    // Q is congruent to R modulo 2^128
    assert(r - k * p2(256) == r + (-(k * M128())) * M128()) by (nonlinear_arith) requires p2(256) == M128() * M128();
    lemma_wrap_shift(s, 128, r, -(k * M128()));
    lemma_wrap_shift(s, 128, q0, q1);
    assert(q0 + q1 * M128() == qq);
    lemma_sign_ext(q1, q0);
    if k != 0 {
        // only -2^255 / -1 wraps at 256 bits; then R = 2^255 does not fit and Q = -2^255, i.e. q1 = -2^127, q0 = 0
        if fits(s, 256, r) { lemma_wrap_id(s, 256, r); assert(k == 0) by (nonlinear_arith) requires k * p2(256) == 0, p2(256) > 0; }
        assert(!fits(s, 256, r));
        assert(s && n == -p2(255) && b == -1) by {
            assert((if n >= 0 { n } else { -n }) >= (if r >= 0 { r } else { -r }));
            if !s { assert(r >= 0) by (nonlinear_arith) requires 0 <= r * b, b > 0; }
            else if r >= p2(255) { assert(n <= r * b <= 0); assert(b == -1) by (nonlinear_arith) requires -p2(255) <= p2(255) * b, n == -p2(255), r == p2(255), n <= r * b, r * b <= 0, b != 0, p2(255) >= 1; }
        }
        assert(r == p2(255)) by (nonlinear_arith) requires n == -p2(255), b == -1, -1 < n - r * b < 1;
        assert(!fits(s, 128, r)) by { assert(p2(255) >= p2(127)) by { lemma_p2_mono(127, 255); } }
        assert(k == 1) by (nonlinear_arith) requires -p2(255) <= r - k * p2(256) < p2(255), r == p2(255), p2(256) == 2 * p2(255), p2(255) > 0;
        assert(qq == -p2(255));
        assert(q1 == -p2(127) && q0 == 0) by (nonlinear_arith) requires q1 * M128() + q0 == -p2(255), 0 <= q0 < M128(), p2(255) == p2(127) * M128(), M128() > 0;
    } else {
        assert(qq == r);
        if !s { assert(r >= 0) by (nonlinear_arith) requires 0 <= r * b, b > 0, n >= 0; assert(q1 >= 0) by (nonlinear_arith) requires q1 * M128() + q0 == r, r >= 0, 0 <= q0 < M128(), M128() > 0; }
    }
}
