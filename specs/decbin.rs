// ---- specs/decbin.rs: the arithmetic behind from_str::dec_to_bin (C08) ----
// val is a DEC-digit decimal fraction numerator (0 <= val < 10^DEC = M), nbits the number of fractional bits wanted;
// N = val * 2^nbits, so N / M is the exact scaled value.  The code works on numer0 = floor(N / 2^(DEC-1)) with the
// denominator 2 * 5^DEC = M / 2^(DEC-1).
pub open spec fn rne_div(n: int, m: int) -> int {
    let q = n / m; let r = n % m;
    if 2 * r > m || (2 * r == m && q % 2 == 1) { q + 1 } else { q }
}
// the rounded quotient of a numerator below mn * p is at most p
pub proof fn lemma_rne_upper(nn: int, mn: int, p: int)
    requires mn > 0, p >= 0, 0 <= nn < mn * p
    ensures 0 <= rne_div(nn, mn) <= p
{
    lemma_fundamental_div_mod(nn, mn); lemma_mod_bound(nn, mn);
    let q = nn / mn; let r = nn % mn;
    assert(q < p) by (nonlinear_arith) requires nn == mn * q + r, r >= 0, nn < mn * p, mn > 0;
    assert(q >= 0) by (nonlinear_arith) requires nn == mn * q + r, r < mn, nn >= 0, mn > 0;
}
// step 1: the two shifts compute floor(N / h), h = 2^(d-1), and report whether that division was exact
pub proof fn lemma_decbin_shifts(val: int, nbits: int, d: int, b: int)
    requires 1 <= d <= b + 1, 0 <= nbits <= b, val >= 0
    ensures ({ let shifted = val * p2(b - d + 1); let k = p2(b - nbits); let n = val * p2(nbits); let h = p2(d - 1);
               shifted / k == n / h && (shifted % k == 0) == (n % h == 0) && (shifted / k) * k <= shifted })
{
    let shifted = val * p2(b - d + 1); let k = p2(b - nbits); let n = val * p2(nbits); let h = p2(d - 1);
    lemma_p2_pos(b - nbits); lemma_p2_pos(d - 1); lemma_p2_pos(nbits); lemma_p2_pos(b - d + 1);
    lemma_fundamental_div_mod(shifted, k); lemma_mod_bound(shifted, k);
    assert((shifted / k) * k == k * (shifted / k)) by (nonlinear_arith);
    if nbits >= d - 1 {
        let e = nbits - (d - 1);      // 2^(b-d+1) = 2^e * k,  2^nbits = 2^e * h
        lemma_p2_add(e, b - nbits); lemma_p2_add(e, d - 1); lemma_p2_pos(e);
        let c = val * p2(e);
        assert(shifted == c * k) by (nonlinear_arith) requires shifted == val * p2(b - d + 1), p2(b - d + 1) == p2(e) * k, c == val * p2(e);
        assert(n == c * h) by (nonlinear_arith) requires n == val * p2(nbits), p2(nbits) == p2(e) * h, c == val * p2(e);
        lemma_div_multiples_vanish(c, k); lemma_div_multiples_vanish(c, h);
        lemma_mod_multiples_basic(c, k); lemma_mod_multiples_basic(c, h);
    } else {
        let e = (d - 1) - nbits;      // k = 2^(b-d+1) * 2^e,  h = 2^nbits * 2^e
        lemma_p2_add(b - d + 1, e); lemma_p2_add(nbits, e); lemma_p2_pos(e);
        let pe = p2(e); let a = p2(b - d + 1); let g = p2(nbits);
        assert(k == a * pe && h == g * pe);
        // (a * val) / (a * pe) == val / pe ; (a * val) % (a * pe) == a * (val % pe)
        lemma_div_multiples_vanish_quotient(a, val, pe);
        lemma_truncate_middle(val, a, pe);
        lemma_div_multiples_vanish_quotient(g, val, pe);
        lemma_truncate_middle(val, g, pe);
        assert(shifted == a * val && n == g * val) by (nonlinear_arith) requires shifted == val * a, n == val * g;
        lemma_mod_bound(val, pe);
        assert((a * (val % pe) == 0) == (val % pe == 0)) by (nonlinear_arith) requires a > 0, val % pe >= 0;
        assert((g * (val % pe) == 0) == (val % pe == 0)) by (nonlinear_arith) requires g > 0, val % pe >= 0;
    }
}
// step 2: dividing floor(N / h) by denom = M / h gives floor(N / M); exactness of both divisions is exactness of N / M
pub proof fn lemma_decbin_nested(n: int, h: int, denom: int)
    requires n >= 0, h > 0, denom > 0
    ensures (n / h) / denom == n / (h * denom), ((n / h) % denom == 0 && n % h == 0) == (n % (h * denom) == 0)
{
    lemma_div_denominator(n, h, denom);
    lemma_breakdown(n, h, denom);       // n % (h * denom) == h * ((n / h) % denom) + n % h
    lemma_mod_bound(n, h); lemma_fundamental_div_mod(n, h);
    assert(n / h >= 0) by (nonlinear_arith) requires n == h * (n / h) + n % h, n % h < h, n >= 0, h > 0;
    lemma_mod_bound(n / h, denom);
    let a = (n / h) % denom; let r = n % h;
    assert((h * a + r == 0) == (a == 0 && r == 0)) by (nonlinear_arith) requires h > 0, a >= 0, r >= 0;
}
// x / p >= c  <=>  x >= c * p   (p > 0)
pub proof fn lemma_div_ge(x: int, p: int, c: int)
    requires p > 0
    ensures (x / p >= c) == (x >= c * p)
{
    lemma_fundamental_div_mod(x, p); lemma_mod_bound(x, p);
    let q = x / p; let r = x % p;
    if q >= c { assert(p * q >= c * p) by (nonlinear_arith) requires q >= c, p > 0; }
    else { assert(p * q + r < c * p) by (nonlinear_arith) requires q + 1 <= c, r < p, p > 0; }
}
// (n + c * h) / h == n / h + c and the remainder is unchanged
pub proof fn lemma_div_add_multiple(n: int, h: int, c: int)
    requires h > 0
    ensures (n + c * h) / h == n / h + c, (n + c * h) % h == n % h
{
    lemma_fundamental_div_mod(n, h); lemma_mod_bound(n, h);
    assert(n + c * h == h * (n / h + c) + n % h) by (nonlinear_arith) requires n == h * (n / h) + n % h;
    lemma_fundamental_div_mod_converse(n + c * h, h, n / h + c, n % h);
}
// Floor mode (and everything both modes share)
pub proof fn lemma_decbin_floor(val: int, nbits: int, d: int, b: int, fives: int)
    requires 1 <= d <= b + 1, 0 <= nbits <= b, fives > 0, 0 <= val < fives * p2(d)
    ensures ({ let shifted = val * p2(b - d + 1); let k = p2(b - nbits); let numer0 = shifted / k; let denom = 2 * fives;
               let n = val * p2(nbits); let m = fives * p2(d);
               &&& numer0 / denom == n / m
               &&& (numer0 % denom == 0 && shifted % k == 0) == (n % m == 0)
               &&& 0 <= n / m < p2(nbits)
               &&& 0 <= numer0 <= shifted && numer0 * k <= shifted
               &&& numer0 == n / p2(d - 1) && (shifted % k == 0) == (n % p2(d - 1) == 0)
               &&& m == p2(d - 1) * denom && m > 0 && n >= 0 })
{
    let shifted = val * p2(b - d + 1); let k = p2(b - nbits); let numer0 = shifted / k; let denom = 2 * fives;
    let n = val * p2(nbits); let m = fives * p2(d); let h = p2(d - 1); let pn = p2(nbits);
    lemma_p2_pos(b - nbits); lemma_p2_pos(d - 1); lemma_p2_pos(nbits); lemma_p2_pos(b - d + 1); lemma_p2_step(d);
    lemma_decbin_shifts(val, nbits, d, b);
    assert(n >= 0) by (nonlinear_arith) requires n == val * pn, val >= 0, pn > 0;
    assert(shifted >= 0) by (nonlinear_arith) requires shifted == val * p2(b - d + 1), val >= 0, p2(b - d + 1) > 0;
    lemma_decbin_nested(n, h, denom);
    assert(m == h * denom) by (nonlinear_arith) requires m == fives * p2(d), p2(d) == 2 * h, denom == 2 * fives;
    assert(m > 0) by (nonlinear_arith) requires m == h * denom, h > 0, denom > 0;
    assert(n < m * pn) by (nonlinear_arith) requires n == val * pn, val < fives * p2(d), m == fives * p2(d), pn > 0;
    lemma_fundamental_div_mod(n, m); lemma_mod_bound(n, m);
    assert(n / m < pn) by (nonlinear_arith) requires n == m * (n / m) + n % m, n % m >= 0, n < m * pn, m > 0;
    assert(n / m >= 0) by (nonlinear_arith) requires n == m * (n / m) + n % m, n % m < m, n >= 0, m > 0;
    lemma_fundamental_div_mod(shifted, k); lemma_mod_bound(shifted, k);
    assert(numer0 >= 0 && numer0 <= shifted) by (nonlinear_arith) requires shifted == k * numer0 + shifted % k, 0 <= shifted % k < k, shifted >= 0, k >= 1;
}
// Nearest mode
pub proof fn lemma_decbin_nearest(val: int, nbits: int, d: int, b: int, fives: int)
    requires 1 <= d <= b + 1, 0 <= nbits <= b, fives > 0, 0 <= val < fives * p2(d)
    ensures ({ let shifted = val * p2(b - d + 1); let k = p2(b - nbits); let numer1 = shifted / k + fives; let denom = 2 * fives;
               let n = val * p2(nbits); let m = fives * p2(d); let pn = p2(nbits);
               let div = numer1 / denom; let tie = numer1 % denom == 0 && shifted % k == 0;
               &&& (numer1 / pn >= denom) ==> (if nbits == 0 && val == fives * p2(d - 1) { rne_div(n, m) == 0 } else { rne_div(n, m) >= pn })
               &&& !(numer1 / pn >= denom) ==> (if tie && div % 2 == 1 { div - 1 } else { div }) == rne_div(n, m) && 0 <= rne_div(n, m) < pn && (tie ==> div >= 1) && 0 <= div < pn })
{
    let shifted = val * p2(b - d + 1); let k = p2(b - nbits); let numer0 = shifted / k; let numer1 = numer0 + fives; let denom = 2 * fives;
    let n = val * p2(nbits); let m = fives * p2(d); let pn = p2(nbits); let h = p2(d - 1); let hh = fives * h;
    lemma_decbin_floor(val, nbits, d, b, fives);
    lemma_p2_pos(nbits); lemma_p2_pos(d - 1);
    assert(hh > 0 && m == 2 * hh) by (nonlinear_arith) requires hh == fives * h, m == h * (2 * fives), fives > 0, h > 0;
    // numer1 == (n + hh) / h, and dividing on by denom gives halfup = (n + hh) / m
    lemma_div_add_multiple(n, h, fives);
    assert(n + fives * h == n + hh);
    lemma_decbin_nested(n + hh, h, denom);
    let halfup = (n + hh) / m;
    assert(numer1 / denom == halfup);
    assert((numer1 % denom == 0 && shifted % k == 0) == ((n + hh) % m == 0));
    // cond <=> halfup >= pn
    lemma_div_ge(numer1, pn, denom); lemma_div_ge(numer1, denom, pn);
    assert(denom * pn == pn * denom) by (nonlinear_arith);
    assert((numer1 / pn >= denom) == (halfup >= pn));
    // halfup against q, r
    let q = n / m; let r = n % m;
    lemma_fundamental_div_mod(n, m); lemma_mod_bound(n, m);
    if r + hh >= m {
        assert(n + hh == m * (q + 1) + (r + hh - m)) by (nonlinear_arith) requires n == m * q + r;
        lemma_fundamental_div_mod_converse(n + hh, m, q + 1, r + hh - m);
    } else {
        lemma_fundamental_div_mod_converse(n + hh, m, q, r + hh);
    }
    assert(((n + hh) % m == 0) == (2 * r == m));
    if nbits >= 1 { lemma_p2_step(nbits); lemma_p2_pos(nbits - 1); assert(pn % 2 == 0) by (nonlinear_arith) requires pn == 2 * p2(nbits - 1); }
    else { lemma2_to64(); assert(pn == 1); }
    if nbits == 0 && val == fives * p2(d - 1) {
        assert(n == hh) by (nonlinear_arith) requires n == val * pn, pn == 1, val == fives * h, hh == fives * h;
        lemma_fundamental_div_mod_converse(n, m, 0, hh);
    }
    if halfup >= pn && !(nbits == 0 && val == fives * p2(d - 1)) && rne_div(n, m) < pn {
        // then rne = halfup - 1 = q = pn - 1 is even at a tie: pn odd, so nbits == 0, q == 0, n == hh
        assert(2 * r == m && q == pn - 1 && q % 2 == 0);
        assert(nbits == 0);
        assert(q == 0 && r == hh);
        assert(n == hh) by (nonlinear_arith) requires n == m * q + r, q == 0, r == hh;
        assert(val == fives * h) by (nonlinear_arith) requires n == val * pn, pn == 1, n == hh, hh == fives * h;
        assert(false);
    }
}
