// ---- specs/floatkind.rs: the abstraction of FloatKind / ToFixedHelper used by the float conversion units ----
// what to_float_kind guarantees about `conv` (kani float::check_kind_f32/f64): xx is the float's exact value rounded to
// nearest-even on the destination grid; conv carries xx modulo 2^128, its tag and the overflow flag
pub open spec fn conv_of(conv: ToFixedHelper, xx: int, wd: int) -> bool {
    match conv.bits {
        Widest::Unsigned(u) => xx >= 0 && u as int == xx % p2(128) && conv.overflow == !(xx < p2(wd)),
        Widest::Negative(n) => xx < 0 && n as int == wrap(true, 128, xx) && conv.overflow == !(xx >= -p2(wd - 1)),
    }
}
pub open spec fn kind_finite(k: FloatKind) -> bool { match k { FloatKind::Finite { neg, conv } => true, _ => false } }
pub open spec fn kind_nan(k: FloatKind) -> bool { match k { FloatKind::NaN => true, _ => false } }
pub open spec fn kind_conv(k: FloatKind) -> ToFixedHelper { match k { FloatKind::Finite { neg, conv } => conv, _ => arbitrary() } }
pub open spec fn kind_neg(k: FloatKind) -> bool { match k { FloatKind::Finite { neg, conv } => neg, FloatKind::Infinite { neg } => neg, _ => false } }
