// ---- specs/powfrac.rs: the arithmetic behind bin / oct / hex _str_frac_to_bin (C08) ----
// u = the n fraction digits (bytes 48 + value) in radix R = 2^g; the literal's fraction scaled to nb binary places is
// X = dval(u, R) * 2^nb / R^n, and the parser must return X rounded to nearest, ties to even.
pub open spec fn frac_pow2(u: Seq<u8>, g: int, nb: int) -> int { rne_div(dval(u, p2(g)) * p2(nb), p2(g * u.len())) }
// an exact quotient is its own rounding
pub proof fn lemma_rne_exact(x: int, d: int)
    requires d > 0, x >= 0
    ensures rne_div(x * d, d) == x
{
    assert(x * d == d * x + 0) by (nonlinear_arith);
    lemma_fundamental_div_mod_converse(x * d, d, x, 0);
}
// n = q d + hb (d/2) + t with t below half a unit: round up iff the half bit is set and (something follows or q is odd)
pub proof fn lemma_rne_halves(n: int, d: int, hh: int, q: int, hb: int, t: int)
    requires hh > 0, d == 2 * hh, q >= 0, hb == 0 || hb == 1, 0 <= t < hh, n == q * d + hb * hh + t
    ensures rne_div(n, d) == q + (if hb == 1 && (t > 0 || q % 2 == 1) { 1int } else { 0int })
{
    let r = hb * hh + t;
    assert(hb * hh == (if hb == 1 { hh } else { 0 })) by (nonlinear_arith) requires hb == 0 || hb == 1;
    assert(n == d * q + r) by (nonlinear_arith) requires n == q * d + hb * hh + t, r == hb * hh + t;
    lemma_fundamental_div_mod_converse(n, d, q, r);
}
// the digit at which the bits run out: vv = a R e + di e + tt (a: the digits before, di: this digit, tt: the digits after, e = R^(number after)),
// R = s * 2 * hf with s = 2^rem the bits of di still kept (hi), hf the weight of its half bit (hb), low the bits below; p = 2^(bits already used)
pub proof fn lemma_pow2_boundary(vv: int, a: int, di: int, tt: int, e: int, p: int, s: int, hf: int, hi: int, hb: int, low: int, nbp: int, dn: int)
    requires a >= 0, e > 0, p > 0, s > 0, hf > 0, 0 <= tt < e, hi >= 0, hb == 0 || hb == 1, 0 <= low < hf,
             di == hi * 2 * hf + hb * hf + low, vv == a * (s * 2 * hf) * e + di * e + tt, nbp == p * s, dn == p * (s * 2 * hf) * e
    ensures rne_div(vv * nbp, dn) == (a * s + hi) + (if hb == 1 && (low > 0 || tt > 0 || (a * s + hi) % 2 == 1) { 1int } else { 0int })
{
    let hh = p * s * hf * e; let q = a * s + hi; let c = p * s; let lt = low * e + tt; let t = lt * c;
    assert(c > 0) by (nonlinear_arith) requires p > 0, s > 0, c == p * s;
    assert(hf * e > 0) by (nonlinear_arith) requires hf > 0, e > 0;
    assert(hh == (hf * e) * c) by (nonlinear_arith) requires hh == p * s * hf * e, c == p * s;
    assert(dn == 2 * hh) by (nonlinear_arith) requires dn == p * (s * 2 * hf) * e, hh == p * s * hf * e;
    assert(0 <= lt <= hf * e - 1) by (nonlinear_arith) requires 0 <= low <= hf - 1, 0 <= tt <= e - 1, lt == low * e + tt, e > 0;
    assert(0 <= t < hh) by (nonlinear_arith) requires 0 <= lt <= hf * e - 1, t == lt * c, hh == (hf * e) * c, c > 0;
    assert((t > 0) == (low > 0 || tt > 0)) by (nonlinear_arith) requires t == lt * c, c > 0, lt == low * e + tt, low >= 0, tt >= 0, e > 0;
    assert(q >= 0) by (nonlinear_arith) requires a >= 0, s > 0, hi >= 0, q == a * s + hi;
    // vv * nbp = (a s + hi) dn + hb hh + t
    let k = hf * e;
    assert(a * (s * 2 * hf) * e == (a * s) * (2 * k)) by (nonlinear_arith) requires k == hf * e;
    assert(di * e == hi * (2 * k) + hb * k + low * e) by (nonlinear_arith) requires k == hf * e, di == hi * 2 * hf + hb * hf + low;
    assert(vv == q * (2 * k) + hb * k + lt) by (nonlinear_arith)
        requires vv == (a * s) * (2 * k) + (hi * (2 * k) + hb * k + low * e) + tt, q == a * s + hi, lt == low * e + tt;
    assert(hh == k * c && dn == 2 * k * c) by (nonlinear_arith) requires hh == (hf * e) * c, k == hf * e, dn == 2 * hh;
    assert(vv * nbp == q * (2 * k * c) + hb * (k * c) + lt * c) by (nonlinear_arith) requires vv == q * (2 * k) + hb * k + lt, nbp == c;
    lemma_rne_halves(vv * nbp, dn, hh, q, hb, t);
}
// a digit string whose last digit is not zero has a positive value
pub proof fn lemma_dval_last_pos_r(u: Seq<u8>, r: int)
    requires digits_r(u, r), 2 <= r <= 16, u.len() > 0, u.last() != 48
    ensures dval(u, r) >= 1
{
    let h = u.drop_last();
    assert(digits_r(h, r)) by { assert forall|i: int| 0 <= i < h.len() implies 48 <= #[trigger] h[i] < 48 + r by { assert(h[i] == u[i]); } }
    lemma_dval_bounds_r(h, r);
    assert(dval(h, r) * r >= 0) by (nonlinear_arith) requires dval(h, r) >= 0, r >= 2;
}
// the value splits at digit k into the digits before, the digit, and the digits after (tail positive iff there is one: trimmed fraction)
pub proof fn lemma_dval_three(u: Seq<u8>, k: int, g: int)
    requires 1 <= g <= 4, digits_r(u, p2(g)), 0 <= k < u.len(), u.last() != 48
    ensures ({ let r = p2(g); let n = u.len() as int; let a = dval(u.take(k), r); let tt = dval(u.subrange(k + 1, n), r); let e = p2(g * (n - k - 1));
               &&& dval(u, r) == a * r * e + (u[k] as int - 48) * e + tt
               &&& 0 <= a < p2(g * k) &&& 0 <= tt < e &&& e > 0 &&& (tt > 0) == (n > k + 1) &&& p2(g * n) == p2(g * k) * r * e
               &&& g * k >= 0 && g * (n - k - 1) >= 0 })
{
    let r = p2(g); let n = u.len() as int; lemma2_to64();
    let a = dval(u.take(k), r); let rest = u.subrange(k + 1, n); let tt = dval(rest, r);
    assert(g * k >= 0 && g * (n - k - 1) >= 0 && g * n == g * k + g + g * (n - k - 1)) by (nonlinear_arith) requires g >= 1, k >= 0, n - k - 1 >= 0;
    lemma_dval_split_r(u, k + 1, r); assert(u.subrange(0, k + 1) =~= u.take(k + 1)); lemma_dval_push_r(u, k, r);
    lemma_pow_radix(g, n - k - 1); lemma_pow_radix(g, k);
    assert(digits_r(u.take(k), r)) by { assert forall|i: int| 0 <= i < u.take(k).len() implies 48 <= #[trigger] u.take(k)[i] < 48 + r by { assert(u.take(k)[i] == u[i]); } }
    assert(digits_r(rest, r)) by { assert forall|i: int| 0 <= i < rest.len() implies 48 <= #[trigger] rest[i] < 48 + r by { assert(rest[i] == u[k + 1 + i]); } }
    lemma_dval_bounds_r(u.take(k), r); lemma_dval_bounds_r(rest, r);
    if n > k + 1 { assert(rest.last() == u.last()); lemma_dval_last_pos_r(rest, r); } else { assert(rest.len() == 0); }
    let e = p2(g * (n - k - 1)); lemma_p2_pos(g * (n - k - 1));
    assert((a * r + (u[k] as int - 48)) * e == a * r * e + (u[k] as int - 48) * e) by (nonlinear_arith);
    lemma_p2_add(g * k, g); lemma_p2_add(g * k + g, g * (n - k - 1));
}
// the final range check of the parsers: (x >> nbits) != 0 iff x reached 2^nbits
pub proof fn lemma_reach(x: int, p: int)
    requires 0 <= x <= p, p > 0
    ensures (x / p != 0) == (x == p)
{
    if x < p { lemma_basic_div(x, p); } else { lemma_div_by_self(p); }
}
// the digit at which the bits run out, split as the code does: kept bits, half bit, bits below (g = 3: octal, g = 4: hex)
pub proof fn lemma_split_digit(val: u8, g: u32, rem: u32)
    requires g == 3 || g == 4, rem < g, (val as int) < p2(g as int)
    ensures ({ let half: u8 = 1u8 << ((g - 1 - rem) as u32); let hi: u8 = val >> ((g - rem) as u32); let low: u8 = val & ((half - 1) as u8);
               &&& val as int == hi as int * 2 * half as int + (if val & half != 0 { half as int } else { 0 }) + low as int
               &&& half as int == p2(g - 1 - rem) &&& low < half &&& (hi as int) < p2(rem as int) &&& half >= 1 &&& p2(g as int) == p2(rem as int) * 2 * half as int })
{
    lemma2_to64();
    if g == 3 {
        assert(val < 8);
        if rem == 0 { assert(val < 8 ==> (val >> 3u32) < 1 && val == (val >> 3u32) * 2 * 4 + (if val & (1u8 << 2u32) != 0 { 4u8 } else { 0u8 }) + (val & (((1u8 << 2u32) - 1) as u8)) && (1u8 << 2u32) == 4 && (val & (((1u8 << 2u32) - 1) as u8)) < 4) by (bit_vector); }
        else if rem == 1 { assert(val < 8 ==> (val >> 2u32) < 2 && val == (val >> 2u32) * 2 * 2 + (if val & (1u8 << 1u32) != 0 { 2u8 } else { 0u8 }) + (val & (((1u8 << 1u32) - 1) as u8)) && (1u8 << 1u32) == 2 && (val & (((1u8 << 1u32) - 1) as u8)) < 2) by (bit_vector); }
        else { assert(val < 8 ==> (val >> 1u32) < 4 && val == (val >> 1u32) * 2 * 1 + (if val & (1u8 << 0u32) != 0 { 1u8 } else { 0u8 }) + (val & (((1u8 << 0u32) - 1) as u8)) && (1u8 << 0u32) == 1 && (val & (((1u8 << 0u32) - 1) as u8)) < 1) by (bit_vector); }
    } else {
        assert(val < 16);
        if rem == 0 { assert(val < 16 ==> (val >> 4u32) < 1 && val == (val >> 4u32) * 2 * 8 + (if val & (1u8 << 3u32) != 0 { 8u8 } else { 0u8 }) + (val & (((1u8 << 3u32) - 1) as u8)) && (1u8 << 3u32) == 8 && (val & (((1u8 << 3u32) - 1) as u8)) < 8) by (bit_vector); }
        else if rem == 1 { assert(val < 16 ==> (val >> 3u32) < 2 && val == (val >> 3u32) * 2 * 4 + (if val & (1u8 << 2u32) != 0 { 4u8 } else { 0u8 }) + (val & (((1u8 << 2u32) - 1) as u8)) && (1u8 << 2u32) == 4 && (val & (((1u8 << 2u32) - 1) as u8)) < 4) by (bit_vector); }
        else if rem == 2 { assert(val < 16 ==> (val >> 2u32) < 4 && val == (val >> 2u32) * 2 * 2 + (if val & (1u8 << 1u32) != 0 { 2u8 } else { 0u8 }) + (val & (((1u8 << 1u32) - 1) as u8)) && (1u8 << 1u32) == 2 && (val & (((1u8 << 1u32) - 1) as u8)) < 2) by (bit_vector); }
        else { assert(val < 16 ==> (val >> 1u32) < 8 && val == (val >> 1u32) * 2 * 1 + (if val & (1u8 << 0u32) != 0 { 1u8 } else { 0u8 }) + (val & (((1u8 << 0u32) - 1) as u8)) && (1u8 << 0u32) == 1 && (val & (((1u8 << 0u32) - 1) as u8)) < 1) by (bit_vector); }
    }
}
// hexadecimal digits are normalised to bytes 48 + value (hn), the other radices are used as they are
pub open spec fn norm(s: Seq<u8>, g: int) -> Seq<u8> { if g == 4 { hn(s) } else { s } }
pub open spec fn digs(s: Seq<u8>, g: int) -> bool { if g == 4 { hex_digits(s) } else { digits_r(s, p2(g)) } }
pub proof fn lemma_norm(s: Seq<u8>, g: int)
    requires digs(s, g), 1 <= g <= 4
    ensures digits_r(norm(s, g), p2(g)), norm(s, g).len() == s.len(),
            forall|i: int| 0 <= i < s.len() ==> (#[trigger] norm(s, g)[i]) as int - 48 == (if g == 4 { hv(s[i]) } else { s[i] as int - 48 }),
            (s.len() > 0 && s.last() != 48) ==> norm(s, g).last() != 48
{
    lemma2_to64();
    if g == 4 { lemma_hn(s); if s.len() > 0 && s.last() != 48 { assert(hexdigit(s.last())); assert(hn(s).last() == hn(s)[s.len() - 1]); } }
}
pub proof fn lemma_frac_pow2_facts(u: Seq<u8>, g: int, nb: int)
    requires 1 <= g <= 4, digits_r(u, p2(g)), nb >= 0
    ensures 0 <= frac_pow2(u, g, nb) <= p2(nb), u.len() == 0 ==> frac_pow2(u, g, nb) == 0,
            (u.len() == 1 && (u[0] as int - 48) * 2 == p2(g) && nb == 0) ==> frac_pow2(u, g, nb) == 0
{
    lemma2_to64();
    let r = p2(g); let n = u.len() as int; let (dd, tn, pn) = (dval(u, r), p2(g * n), p2(nb));
    lemma_dval_bounds_r(u, r); lemma_pow_radix(g, n); lemma_p2_pos(nb); lemma_p2_pos(g * n);
    assert(dd * pn < tn * pn) by (nonlinear_arith) requires 0 <= dd < tn, pn > 0;
    assert(dd * pn >= 0) by (nonlinear_arith) requires 0 <= dd, pn > 0;
    lemma_rne_upper(dd * pn, tn, pn);
    if n == 0 { assert(dd == 0); assert(0 * pn == 0); assert(g * 0 == 0); assert(tn == 1); }
    if n == 1 && (u[0] as int - 48) * 2 == r && nb == 0 {
        assert(u.drop_last().len() == 0); assert(dval(u.drop_last(), r) == 0); assert(dd == 0 * r + (u[0] as int - 48));
        assert(pn == 1); assert(g * 1 == g); assert(dd * 1 == dd);
        lemma_fundamental_div_mod_converse(dd, r, 0, dd);
    }
}
