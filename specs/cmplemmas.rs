// ---- specs/cmplemmas.rs: exact ordering of two fixed-point values and its relation to to_fixed_helper (C03) ----
pub open spec fn ord(b1: int, f1: int, b2: int, f2: int) -> Ordering {
    if b1 * p2(f2) < b2 * p2(f1) { Ordering::Less } else if b1 * p2(f2) == b2 * p2(f1) { Ordering::Equal } else { Ordering::Greater }
}
pub open spec fn then_s(a: Ordering, b: Ordering) -> Ordering { if a == Ordering::Equal { b } else { a } }
pub open spec fn cmp_int(a: int, b: int) -> Ordering { if a < b { Ordering::Less } else if a == b { Ordering::Equal } else { Ordering::Greater } }
// contract of IntHelper::to_fixed_helper for a non-negative source fraction count (discharged by kani tofixed::check_tfh_*)
pub open spec fn tfh_x(x: int, fs: int, fd: int) -> int { (x * p2(fd)) / p2(fs) }
pub open spec fn tfh_exact(x: int, fs: int, fd: int) -> bool { (x * p2(fd)) % p2(fs) == 0 }

// parameter-only facts: lhs pattern b1 (signedness sl, width wl, f1 fraction bits) against rhs pattern b2 (f2 fraction bits)
pub proof fn lemma_cmp_facts(sl: bool, wl: int, b1: int, f1: int, b2: int, f2: int)
    requires 8 <= wl <= 128, 0 <= f1 <= wl, 0 <= f2 <= 128, fits(sl, wl, b1)
    ensures ({
        let xx = tfh_x(b2, f2, f1); let ex = tfh_exact(b2, f2, f1);
        &&& (b2 >= 0 ==> xx >= 0) &&& (b2 < 0 ==> xx < 0)
        &&& (b1 < xx ==> ord(b1, f1, b2, f2) == Ordering::Less)
        &&& (b1 > xx ==> ord(b1, f1, b2, f2) == Ordering::Greater)
        &&& (b1 == xx ==> ord(b1, f1, b2, f2) == (if ex { Ordering::Equal } else { Ordering::Less }))
        &&& (b1 >= 0 && b2 < 0 ==> ord(b1, f1, b2, f2) == Ordering::Greater)
        &&& (b1 < 0 && b2 >= 0 ==> ord(b1, f1, b2, f2) == Ordering::Less)
        &&& b1 < p2(wl) &&& b1 >= -p2(wl - 1) &&& (sl ==> b1 < p2(wl - 1)) &&& (!sl ==> b1 >= 0)
        &&& (fits(sl, wl, xx) ==> wrap(sl, wl, xx) == xx)
        &&& (sl && p2(wl - 1) <= xx < p2(wl) ==> wrap(true, wl, xx) < 0)
        &&& (!sl ==> wrap(false, wl, xx) >= 0)
        &&& (0 <= xx < p2(128) ==> xx % p2(128) == xx)
        &&& (-p2(127) <= xx < p2(127) ==> wrap(true, 128, xx) == xx)
        &&& p2(wl) <= p2(128) &&& p2(wl - 1) <= p2(127) &&& p2(wl) == 2 * p2(wl - 1) &&& p2(wl - 1) > 0
    })
{
    let (p1, pp2) = (p2(f1), p2(f2));
    lemma_p2_pos(f1); lemma_p2_pos(f2); lemma_p2_pos(wl); lemma_p2_pos(wl - 1); lemma_p2_step(wl); lemma_p2_mono(wl, 128); lemma_p2_mono(wl - 1, 127);
    let v2 = b2 * p1; let v1 = b1 * pp2;
    let xx = v2 / pp2; let m = v2 % pp2;
    lemma_fundamental_div_mod(v2, pp2); lemma_mod_bound(v2, pp2);
    assert(v2 == pp2 * xx + m && 0 <= m < pp2);
    lemma_mul_sign(b2, p1);
    assert(b2 >= 0 ==> xx >= 0) by (nonlinear_arith) requires v2 == pp2 * xx + m, 0 <= m < pp2, b2 >= 0 ==> v2 >= 0;
    assert(b2 < 0 ==> xx < 0) by (nonlinear_arith) requires v2 == pp2 * xx + m, 0 <= m < pp2, b2 < 0 ==> v2 < 0;
    assert(b1 < xx ==> v1 < v2) by (nonlinear_arith) requires v2 == pp2 * xx + m, 0 <= m, v1 == b1 * pp2, pp2 > 0;
    assert(b1 > xx ==> v1 > v2) by (nonlinear_arith) requires v2 == pp2 * xx + m, m < pp2, v1 == b1 * pp2, pp2 > 0;
    assert(b1 == xx ==> (v1 <= v2 && (v1 == v2) == (m == 0))) by (nonlinear_arith) requires v2 == pp2 * xx + m, 0 <= m, v1 == b1 * pp2;
    lemma_mul_sign(b1, pp2);
    if fits(sl, wl, xx) { lemma_wrap_id(sl, wl, xx); }
    if sl && p2(wl - 1) <= xx < p2(wl) { lemma_wrap_unique(true, wl, xx, xx - p2(wl), -1); }
    if !sl { let k = lemma_wrap_diff(false, wl, xx); }
    if 0 <= xx < p2(128) { lemma_small_mod(xx as nat, p2(128) as nat); }
    if -p2(127) <= xx < p2(127) { lemma_wrap_id(true, 128, xx); }
}
pub proof fn lemma_ord_swap(b1: int, f1: int, b2: int, f2: int)
    ensures ord(b2, f2, b1, f1) == (match ord(b1, f1, b2, f2) { Ordering::Less => Ordering::Greater, Ordering::Equal => Ordering::Equal, Ordering::Greater => Ordering::Less })
{ }

// conversion policies (C04): facts relating the helper's result for source pattern x (fs fraction bits) to the
// destination (signedness sd, width wd, fd fraction bits)
pub proof fn lemma_conv_facts(sd: bool, wd: int, x: int, fs: int, fd: int)
    requires 8 <= wd <= 128, 0 <= fd <= wd, 0 <= fs <= 128
    ensures ({
        let xx = tfh_x(x, fs, fd);
        &&& xx == R_conv(x, fs, fd)
        &&& (x >= 0 ==> xx >= 0) &&& (x < 0 ==> xx < 0)
        &&& (xx >= 0 ==> wrap(sd, wd, xx % p2(128)) == wrap(sd, wd, xx))
        &&& wrap(sd, wd, wrap(true, 128, xx)) == wrap(sd, wd, xx)
        &&& (xx >= 0 ==> (fits(sd, wd, xx) <==> (xx < p2(wd) && !(sd && wrap(true, wd, xx) < 0))))
        &&& (xx < 0 ==> (fits(sd, wd, xx) <==> (sd && xx >= -p2(wd - 1))))
        &&& (xx >= p2(wd) ==> xx > max_of(sd, wd)) &&& (xx < -p2(wd - 1) ==> xx < min_of(sd, wd))
        &&& (sd && xx >= 0 && xx < p2(wd) && wrap(true, wd, xx) < 0 ==> xx > max_of(sd, wd))
        &&& (!sd && xx < 0 ==> xx < min_of(sd, wd))
    })
{
    let (p1, pp2) = (p2(fd), p2(fs));
    lemma_p2_pos(fd); lemma_p2_pos(fs); lemma_p2_pos(wd); lemma_p2_pos(wd - 1); lemma_p2_step(wd); lemma_p2_pos(128);
    let v = x * p1; let xx = v / pp2; let m = v % pp2;
    lemma_fundamental_div_mod(v, pp2); lemma_mod_bound(v, pp2);
    lemma_mul_sign(x, p1);
    assert(x >= 0 ==> xx >= 0) by (nonlinear_arith) requires v == pp2 * xx + m, 0 <= m < pp2, x >= 0 ==> v >= 0;
    assert(x < 0 ==> xx < 0) by (nonlinear_arith) requires v == pp2 * xx + m, 0 <= m < pp2, x < 0 ==> v < 0;
    // reducing modulo 2^128 first does not change the value modulo 2^wd
    lemma_p2_add(wd, 128 - wd); lemma_p2_pos(128 - wd);
    let e = p2(128 - wd);
    if xx >= 0 {
        lemma_fundamental_div_mod(xx, p2(128));
        let k = xx / p2(128);
        assert(xx % p2(128) == xx + (-(k * e)) * p2(wd)) by (nonlinear_arith) requires xx == p2(128) * k + xx % p2(128), p2(128) == p2(wd) * e;
        lemma_wrap_shift(sd, wd, xx, -(k * e));
    }
    let k2 = lemma_wrap_diff(true, 128, xx);
    assert(wrap(true, 128, xx) == xx + (-(k2 * e)) * p2(wd)) by (nonlinear_arith) requires wrap(true, 128, xx) == xx - k2 * p2(128), p2(128) == p2(wd) * e;
    lemma_wrap_shift(sd, wd, xx, -(k2 * e));
    if 0 <= xx < p2(wd) {
        if xx < p2(wd - 1) { lemma_wrap_id(true, wd, xx); } else { lemma_wrap_unique(true, wd, xx, xx - p2(wd), -1); }
    }
}

// the same policy facts stated directly on the exact destination-grid value xx (used by the float glue, C05)
pub proof fn lemma_xx_facts(sd: bool, wd: int, xx: int)
    requires 8 <= wd <= 128
    ensures (xx >= 0 ==> wrap(sd, wd, xx % p2(128)) == wrap(sd, wd, xx)),
            wrap(sd, wd, wrap(true, 128, xx)) == wrap(sd, wd, xx),
            (xx >= 0 ==> (fits(sd, wd, xx) <==> (xx < p2(wd) && !(sd && wrap(true, wd, xx) < 0)))),
            (xx < 0 ==> (fits(sd, wd, xx) <==> (sd && xx >= -p2(wd - 1)))),
            (xx >= p2(wd) ==> xx > max_of(sd, wd)), (xx < -p2(wd - 1) ==> xx < min_of(sd, wd)),
            (sd && xx >= 0 && xx < p2(wd) && wrap(true, wd, xx) < 0 ==> xx > max_of(sd, wd)),
            (!sd && xx < 0 ==> xx < min_of(sd, wd))
{
    lemma_p2_pos(wd); lemma_p2_pos(wd - 1); lemma_p2_step(wd); lemma_p2_pos(128);
    lemma_p2_add(wd, 128 - wd); lemma_p2_pos(128 - wd);
    let e = p2(128 - wd);
    if xx >= 0 {
        lemma_fundamental_div_mod(xx, p2(128));
        let k = xx / p2(128);
        assert(xx % p2(128) == xx + (-(k * e)) * p2(wd)) by (nonlinear_arith) requires xx == p2(128) * k + xx % p2(128), p2(128) == p2(wd) * e;
        lemma_wrap_shift(sd, wd, xx, -(k * e));
    }
    let k2 = lemma_wrap_diff(true, 128, xx);
    assert(wrap(true, 128, xx) == xx + (-(k2 * e)) * p2(wd)) by (nonlinear_arith) requires wrap(true, 128, xx) == xx - k2 * p2(128), p2(128) == p2(wd) * e;
    lemma_wrap_shift(sd, wd, xx, -(k2 * e));
    if 0 <= xx < p2(wd) {
        if xx < p2(wd - 1) { lemma_wrap_id(true, wd, xx); } else { lemma_wrap_unique(true, wd, xx, xx - p2(wd), -1); }
    }
}
pub open spec fn xx_facts(sd: bool, wd: int, xx: int) -> bool {
    &&& (xx >= 0 ==> wrap(sd, wd, xx % p2(128)) == wrap(sd, wd, xx))
    &&& wrap(sd, wd, wrap(true, 128, xx)) == wrap(sd, wd, xx)
    &&& (xx >= 0 ==> (fits(sd, wd, xx) <==> (xx < p2(wd) && !(sd && wrap(true, wd, xx) < 0))))
    &&& (xx < 0 ==> (fits(sd, wd, xx) <==> (sd && xx >= -p2(wd - 1))))
    &&& (xx >= p2(wd) ==> xx > max_of(sd, wd)) &&& (xx < -p2(wd - 1) ==> xx < min_of(sd, wd))
    &&& (sd && xx >= 0 && xx < p2(wd) && wrap(true, wd, xx) < 0 ==> xx > max_of(sd, wd))
    &&& (!sd && xx < 0 ==> xx < min_of(sd, wd))
}
// range facts used by the float comparisons: a w-bit pattern b against the float's grid value xx
pub proof fn lemma_fl_facts(s: bool, w: int, b: int, xx: int)
    requires 8 <= w <= 128
    ensures p2(w) == 2 * p2(w - 1), p2(w - 1) > 0, p2(w) <= p2(128), p2(w - 1) <= p2(127),
            (0 <= xx < p2(128) ==> xx % p2(128) == xx),
            (-p2(127) <= xx < p2(127) ==> wrap(true, 128, xx) == xx),
            (fits(s, w, xx) ==> wrap(s, w, xx) == xx),
            (s && p2(w - 1) <= xx < p2(w) ==> wrap(true, w, xx) < 0),
            (!s ==> wrap(false, w, xx) >= 0),
            (fits(s, w, b) ==> b < p2(w) && b >= -p2(w - 1) && (s ==> b < p2(w - 1)) && (!s ==> b >= 0))
{
    lemma_p2_pos(w); lemma_p2_pos(w - 1); lemma_p2_step(w); lemma_p2_mono(w, 128); lemma_p2_mono(w - 1, 127);
    if fits(s, w, xx) { lemma_wrap_id(s, w, xx); }
    if s && p2(w - 1) <= xx < p2(w) { lemma_wrap_unique(true, w, xx, xx - p2(w), -1); }
    if !s { let k = lemma_wrap_diff(false, w, xx); }
    if 0 <= xx < p2(128) { lemma_small_mod(xx as nat, p2(128) as nat); }
    if -p2(127) <= xx < p2(127) { lemma_wrap_id(true, 128, xx); }
}
// equal fraction counts: the order of the values is the order of the bit patterns
pub proof fn lemma_ord_same_frac(b1: int, b2: int, f: int)
    requires f >= 0
    ensures ord(b1, f, b2, f) == cmp_int(b1, b2)
{
    lemma_p2_pos(f);
    let p = p2(f);
    assert((b1 * p < b2 * p) == (b1 < b2) && (b1 * p == b2 * p) == (b1 == b2)) by (nonlinear_arith) requires p > 0;
}
