// ---- specs/cmplemmas.rs: exact ordering of two fixed-point values and its relation to to_fixed_helper (C03) ----
pub open spec fn ord(b1: int, f1: int, b2: int, f2: int) -> Ordering {
    if b1 * p2(f2) < b2 * p2(f1) { Ordering::Less } else if b1 * p2(f2) == b2 * p2(f1) { Ordering::Equal } else { Ordering::Greater }
}
pub open spec fn then_s(a: Ordering, b: Ordering) -> Ordering { if a == Ordering::Equal { b } else { a } }
pub open spec fn cmp_int(a: int, b: int) -> Ordering { if a < b { Ordering::Less } else if a == b { Ordering::Equal } else { Ordering::Greater } }
// contract of IntHelper::to_fixed_helper for a non-negative source fraction count (discharged by kani tofixed::check_tfh_*)
pub open spec fn tfh_x(x: int, fs: int, fd: int) -> int { (x * p2(fd)) / p2(fs) }
pub open spec fn tfh_exact(x: int, fs: int, fd: int) -> bool { (x * p2(fd)) % p2(fs) == 0 }

// parameter-only facts: lhs pattern b1 (signedness sl, width wl, f1 fraction bits) against rhs pattern b2 (f2 fraction bits)
pub proof fn lemma_cmp_facts(sl: bool, wl: int, b1: int, f1: int, b2: int, f2: int)
    requires 8 <= wl <= 128, 0 <= f1 <= wl, 0 <= f2 <= 128, fits(sl, wl, b1)
    ensures ({
        let xx = tfh_x(b2, f2, f1); let ex = tfh_exact(b2, f2, f1);
        &&& (b2 >= 0 ==> xx >= 0) &&& (b2 < 0 ==> xx < 0)
        &&& (b1 < xx ==> ord(b1, f1, b2, f2) == Ordering::Less)
        &&& (b1 > xx ==> ord(b1, f1, b2, f2) == Ordering::Greater)
        &&& (b1 == xx ==> ord(b1, f1, b2, f2) == (if ex { Ordering::Equal } else { Ordering::Less }))
        &&& (b1 >= 0 && b2 < 0 ==> ord(b1, f1, b2, f2) == Ordering::Greater)
        &&& (b1 < 0 && b2 >= 0 ==> ord(b1, f1, b2, f2) == Ordering::Less)
        &&& b1 < p2(wl) &&& b1 >= -p2(wl - 1) &&& (sl ==> b1 < p2(wl - 1)) &&& (!sl ==> b1 >= 0)
        &&& (fits(sl, wl, xx) ==> wrap(sl, wl, xx) == xx)
        &&& (sl && p2(wl - 1) <= xx < p2(wl) ==> wrap(true, wl, xx) < 0)
        &&& (!sl ==> wrap(false, wl, xx) >= 0)
        &&& (0 <= xx < p2(128) ==> xx % p2(128) == xx)
        &&& (-p2(127) <= xx < p2(127) ==> wrap(true, 128, xx) == xx)
        &&& p2(wl) <= p2(128) &&& p2(wl - 1) <= p2(127) &&& p2(wl) == 2 * p2(wl - 1) &&& p2(wl - 1) > 0
    })
{
    let (p1, pp2) = (p2(f1), p2(f2));
    lemma_p2_pos(f1); lemma_p2_pos(f2); lemma_p2_pos(wl); lemma_p2_pos(wl - 1); lemma_p2_step(wl); lemma_p2_mono(wl, 128); lemma_p2_mono(wl - 1, 127);
    let v2 = b2 * p1; let v1 = b1 * pp2;
    let xx = v2 / pp2; let m = v2 % pp2;
    lemma_fundamental_div_mod(v2, pp2); lemma_mod_bound(v2, pp2);
    assert(v2 == pp2 * xx + m && 0 <= m < pp2);
    lemma_mul_sign(b2, p1);
    assert(b2 >= 0 ==> xx >= 0) by (nonlinear_arith) requires v2 == pp2 * xx + m, 0 <= m < pp2, b2 >= 0 ==> v2 >= 0;
    assert(b2 < 0 ==> xx < 0) by (nonlinear_arith) requires v2 == pp2 * xx + m, 0 <= m < pp2, b2 < 0 ==> v2 < 0;
    assert(b1 < xx ==> v1 < v2) by (nonlinear_arith) requires v2 == pp2 * xx + m, 0 <= m, v1 == b1 * pp2, pp2 > 0;
    assert(b1 > xx ==> v1 > v2) by (nonlinear_arith) requires v2 == pp2 * xx + m, m < pp2, v1 == b1 * pp2, pp2 > 0;
    assert(b1 == xx ==> (v1 <= v2 && (v1 == v2) == (m == 0))) by (nonlinear_arith) requires v2 == pp2 * xx + m, 0 <= m, v1 == b1 * pp2;
    lemma_mul_sign(b1, pp2);
    if fits(sl, wl, xx) { lemma_wrap_id(sl, wl, xx); }
    if sl && p2(wl - 1) <= xx < p2(wl) { lemma_wrap_unique(true, wl, xx, xx - p2(wl), -1); }
    if !sl { let k = lemma_wrap_diff(false, wl, xx); }
    if 0 <= xx < p2(128) { lemma_small_mod(xx as nat, p2(128) as nat); }
    if -p2(127) <= xx < p2(127) { lemma_wrap_id(true, 128, xx); }
}
pub proof fn lemma_ord_swap(b1: int, f1: int, b2: int, f2: int)
    ensures ord(b2, f2, b1, f1) == (match ord(b1, f1, b2, f2) { Ordering::Less => Ordering::Greater, Ordering::Equal => Ordering::Equal, Ordering::Greater => Ordering::Less })
{ }
