// ---- specs/common.rs: specification vocabulary (DESIGN.md §3.2); spec fns over `int` only ----
pub open spec fn p2(n: int) -> int { pow2(n as nat) as int }
pub open spec fn min_of(s: bool, w: int) -> int { if s { -p2(w - 1) } else { 0 } }
pub open spec fn max_of(s: bool, w: int) -> int { if s { p2(w - 1) - 1 } else { p2(w) - 1 } }
pub open spec fn fits(s: bool, w: int, x: int) -> bool { min_of(s, w) <= x <= max_of(s, w) }
pub open spec fn wrap(s: bool, w: int, x: int) -> int {
    let m = x % p2(w);
    if s && m >= p2(w - 1) { m - p2(w) } else { m }
}
pub open spec fn clamp(s: bool, w: int, x: int) -> int {
    if x < min_of(s, w) { min_of(s, w) } else if x > max_of(s, w) { max_of(s, w) } else { x }
}
// floor division by a positive divisor is Verus's `/` on int (Euclidean); truncation toward zero:
pub open spec fn tz(a: int, b: int) -> int {
    if b > 0 { if a >= 0 { a / b } else { -((-a) / b) } }
    else { if a >= 0 { -(a / (-b)) } else { (-a) / (-b) } }
}
// Euclidean quotient / remainder for any non-zero divisor (0 <= er < |b|)
pub open spec fn er(a: int, b: int) -> int { if b > 0 { a % b } else { a % (-b) } }
pub open spec fn eq(a: int, b: int) -> int { if b > 0 { a / b } else { -(a / (-b)) } }
// exact results named in the properties (C01, C04)
pub open spec fn R_mul(a: int, b: int, f: int) -> int { (a * b) / p2(f) }
pub open spec fn R_div(a: int, b: int, f: int) -> int { tz(a * p2(f), b) }
pub open spec fn R_conv(b: int, fs: int, fd: int) -> int { (b * p2(fd)) / p2(fs) }
pub open spec fn abs_(a: int) -> int { if a < 0 { -a } else { a } }
