// ---- specs/bridge_cast_generic.rs (A,B,WB,SB,LO2,HI2,M): truncating / reinterpreting cast A -> B, modulus as an expression ----
pub broadcast proof fn bridge_cast_{{A}}_{{B}}(x: {{A}})
    ensures #[trigger] (x as {{B}}) as int == wrap({{SB}}, {{WB}}, x as int)
{
    lemma_p2_consts();
    let y = (x as {{B}}) as int;
    assert({{LO2}}int <= (x as {{B}}) as int && ((x as {{B}}) as int) < {{HI2}}int && (((x as {{B}}) as int) - x as int) % {{M}} == 0) by (bit_vector);
    let d = y - x as int;
    lemma_fundamental_div_mod(d, {{M}});
    let k = d / {{M}};
    assert(d == {{M}} * k);
    assert(y == x as int + k * {{M}}) by (nonlinear_arith) requires d == {{M}} * k, d == y - x as int;
    lemma_wrap_unique({{SB}}, {{WB}}, x as int, y, k);
}
