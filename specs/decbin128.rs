// ---- specs/decbin128.rs: two-limb (256-bit) shifts behind the u128 instance of from_str::dec_to_bin (C08) ----
// right shift of hi:lo by 0 < s < 128: low limb = lo / 2^s + (hi * 2^(128-s) mod 2^128), high limb = hi / 2^s
pub proof fn lemma_shr2(hi: int, lo: int, s: int)
    requires 0 <= hi < M128(), 0 <= lo < M128(), 0 < s < 128
    ensures ({ let c = p2(s); let e = p2(128 - s); let nlo = lo / c + wrap(false, 128, hi * e); let nhi = hi / c;
               &&& c * e == M128() &&& c > 0 &&& e > 0
               &&& nhi * M128() + nlo == (hi * M128() + lo) / c &&& 0 <= nlo < M128() &&& 0 <= nhi < e &&& 0 <= lo / c < e
               &&& 0 <= wrap(false, 128, hi * e) &&& wrap(false, 128, hi * e) + lo / c < M128()
               &&& (wrap(false, 128, lo * e) == 0) == ((hi * M128() + lo) % c == 0) })
{
    let c = p2(s); let e = p2(128 - s);
    lemma_p2_add(s, 128 - s); lemma_p2_pos(s); lemma_p2_pos(128 - s); lemma_p2_consts();
    assert(c * e == M128());
    lemma_fundamental_div_mod(hi, c); lemma_mod_bound(hi, c); lemma_fundamental_div_mod(lo, c); lemma_mod_bound(lo, c);
    let (nhi, a, b2, b) = (hi / c, hi % c, lo / c, lo % c);
    assert(0 <= nhi < e) by (nonlinear_arith) requires hi == c * nhi + a, 0 <= a < c, 0 <= hi < c * e, c > 0;
    assert(0 <= b2 < e) by (nonlinear_arith) requires lo == c * b2 + b, 0 <= b < c, 0 <= lo < c * e, c > 0;
    assert(hi * e == nhi * M128() + a * e && 0 <= a * e && a * e <= M128() - e) by (nonlinear_arith) requires hi == c * nhi + a, 0 <= a < c, c * e == M128(), e > 0;
    assert(a * e == hi * e + (-nhi) * p2(128)) by (nonlinear_arith) requires hi * e == nhi * M128() + a * e, M128() == p2(128);
    lemma_wrap_unique(false, 128, hi * e, a * e, -nhi);
    assert(lo * e == b2 * M128() + b * e && 0 <= b * e && b * e <= M128() - e) by (nonlinear_arith) requires lo == c * b2 + b, 0 <= b < c, c * e == M128(), e > 0;
    assert(b * e == lo * e + (-b2) * p2(128)) by (nonlinear_arith) requires lo * e == b2 * M128() + b * e, M128() == p2(128);
    lemma_wrap_unique(false, 128, lo * e, b * e, -b2);
    assert((b * e == 0) == (b == 0)) by (nonlinear_arith) requires e > 0, b >= 0;
    let t = hi * M128() + lo;
    assert(t == c * (nhi * M128() + a * e + b2) + b) by (nonlinear_arith) requires hi * e == nhi * M128() + a * e, lo == c * b2 + b, c * e == M128(), t == hi * M128() + lo;
    lemma_fundamental_div_mod_converse(t, c, nhi * M128() + a * e + b2, b);
}
// hi:lo == v with v < 2^128 means hi == 0
pub proof fn lemma_limbs_small(hi: int, lo: int, v: int)
    requires hi * M128() + lo == v, 0 <= lo < M128(), 0 <= v < M128(), hi >= 0
    ensures hi == 0, lo == v
{
    assert(hi == 0) by (nonlinear_arith) requires hi * M128() + lo == v, 0 <= lo, v < M128(), hi >= 0, M128() > 0;
}
// the numerator handed to the division: floor(V * 2^nbits / 2^53) as a shift of V by nbits - 53 in either direction
pub proof fn lemma_decbin128_scale(v: int, nbits: int)
    requires 0 <= v, 0 <= nbits <= 128
    ensures ({ let n = v * p2(nbits); let h = p2(53);
               &&& nbits < 53 ==> n / h == v / p2(53 - nbits) && (n % h == 0) == (v % p2(53 - nbits) == 0)
               &&& nbits >= 53 ==> n / h == v * p2(nbits - 53) && n % h == 0 })
{
    let n = v * p2(nbits); let h = p2(53);
    lemma_p2_pos(nbits); lemma_p2_pos(53);
    if nbits < 53 {
        let s = 53 - nbits; lemma_p2_add(nbits, s); lemma_p2_pos(s);
        let g = p2(nbits); let c = p2(s);
        assert(n == g * v) by (nonlinear_arith) requires n == v * g;
        lemma_div_multiples_vanish_quotient(g, v, c);
        lemma_truncate_middle(v, g, c);
        lemma_mod_bound(v, c);
        assert((g * (v % c) == 0) == (v % c == 0)) by (nonlinear_arith) requires g > 0, v % c >= 0;
    } else {
        let s = nbits - 53; lemma_p2_add(s, 53); lemma_p2_pos(s);
        let c = v * p2(s);
        assert(n == c * h) by (nonlinear_arith) requires n == v * p2(nbits), p2(nbits) == p2(s) * h, c == v * p2(s);
        lemma_div_multiples_vanish(c, h); lemma_mod_multiples_basic(c, h);
    }
}
pub proof fn lemma_add_carry128(x: int, y: int)
    requires 0 <= x < M128(), 0 <= y < M128()
    ensures wrap(false, 128, x + y) == (if x + y >= M128() { x + y - M128() } else { x + y }), !fits(false, 128, x + y) == (x + y >= M128())
{
    lemma_p2_consts();
    if x + y >= M128() { lemma_wrap_unique(false, 128, x + y, x + y - M128(), -1); } else { lemma_wrap_id(false, 128, x + y); }
}
// hi:lo == v, both limbs in range  ==>  hi == v / 2^128 and lo == v % 2^128
pub proof fn lemma_limbs(hi: int, lo: int, v: int)
    requires hi * M128() + lo == v, 0 <= lo < M128()
    ensures hi == v / M128(), lo == v % M128()
{
    assert(v == M128() * hi + lo) by (nonlinear_arith) requires hi * M128() + lo == v;
    lemma_fundamental_div_mod_converse(v, M128(), hi, lo);
}
