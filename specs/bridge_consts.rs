// ---- specs/bridge_consts.rs: the powers of two at the type boundaries ----
pub proof fn lemma_p2_consts()
    ensures p2(0) == 1, p2(1) == 2, p2(7) == 0x80, p2(8) == 0x100, p2(15) == 0x8000, p2(16) == 0x1_0000,
            p2(31) == 0x8000_0000, p2(32) == 0x1_0000_0000,
            p2(63) == 0x8000_0000_0000_0000, p2(64) == 0x1_0000_0000_0000_0000,
            p2(127) == 0x8000_0000_0000_0000_0000_0000_0000_0000,
            p2(128) == 0x1_0000_0000_0000_0000_0000_0000_0000_0000,
{
    lemma2_to64();
    lemma_pow2_unfold(64); lemma_pow2_unfold(128);
    lemma_pow2_adds(64, 64);
    assert(0x1_0000_0000_0000_0000int * 0x1_0000_0000_0000_0000int == 0x1_0000_0000_0000_0000_0000_0000_0000_0000int) by (compute);
}
