// ---- specs/typenum.rs: R6, the meaning of the typenum items the crate uses (assumption on the dependency) ----
pub trait Unsigned { const U32: u32; }
pub trait LeEqU8: Unsigned { proof fn bound() ensures Self::U32 <= 8; }
pub trait LeEqU16: Unsigned { proof fn bound() ensures Self::U32 <= 16; }
pub trait LeEqU32: Unsigned { proof fn bound() ensures Self::U32 <= 32; }
pub trait LeEqU64: Unsigned { proof fn bound() ensures Self::U32 <= 64; }
pub trait LeEqU128: Unsigned { proof fn bound() ensures Self::U32 <= 128; }
