// ---- specs/tzlemmas.rs: facts about truncating division used by the integer-divisor forms ----
pub proof fn lemma_mul_sign(a: int, b: int)
    ensures (a * b < 0) ==> ((a < 0) != (b < 0)), (a * b > 0) ==> ((a < 0) == (b < 0)),
            (a < 0 && b < 0) ==> a * b > 0, (a > 0 && b > 0) ==> a * b > 0, (a < 0 && b > 0) ==> a * b < 0, (a > 0 && b < 0) ==> a * b < 0,
            (a == 0 || b == 0) ==> a * b == 0
{
    assert((a * b < 0) ==> ((a < 0) != (b < 0))) by (nonlinear_arith);
    assert((a * b > 0) ==> ((a < 0) == (b < 0))) by (nonlinear_arith);
    assert((a < 0 && b < 0) ==> a * b > 0) by (nonlinear_arith);
    assert((a > 0 && b > 0) ==> a * b > 0) by (nonlinear_arith);
    assert((a < 0 && b > 0) ==> a * b < 0) by (nonlinear_arith);
    assert((a > 0 && b < 0) ==> a * b < 0) by (nonlinear_arith);
}
// |tz(a, b)| <= |a|, so the truncated quotient of two w-bit values fits unless it is MIN / -1
pub proof fn lemma_tz_fits(s: bool, w: int, a: int, b: int)
    requires w >= 1, fits(s, w, a), fits(s, w, b), b != 0
    ensures fits(s, w, tz(a, b)) <==> !(s && a == min_of(s, w) && b == -1),
            (s && a == min_of(s, w) && b == -1) ==> tz(a, b) == p2(w - 1),
            !s ==> tz(a, b) == a / b,
            (a >= 0 && b > 0) ==> tz(a, b) == a / b
{
    lemma_tz_bounds(a, b);
    lemma_p2_pos(w); lemma_p2_pos(w - 1); lemma_p2_step(w);
    let q = tz(a, b);
    if s && a == min_of(s, w) && b == -1 {
        assert(q == -a) by (nonlinear_arith) requires -1 < a - q * b < 1, b == -1;
    } else if s {
        // |q| <= |a| <= 2^(w-1), and q == 2^(w-1) only for a == MIN, b == -1
        if q >= p2(w - 1) {
            assert(a == -p2(w - 1));
            assert(a <= q * b <= 0);
            assert(b == -1) by (nonlinear_arith) requires -p2(w - 1) <= q * b, q * b <= 0, q >= p2(w - 1), b != 0, p2(w - 1) >= 1;
        }
    }
}
// Euclidean remainder facts: 0 <= er < |b|, er == a mod 1 == 0 for b == -1, and er == a % b for non-negative operands
pub proof fn lemma_er_facts(s: bool, w: int, a: int, b: int)
    requires w >= 1, fits(s, w, a), fits(s, w, b), b != 0
    ensures 0 <= er(a, b) < abs_(b), fits(s, w, er(a, b)), (b == -1 || b == 1) ==> er(a, b) == 0,
            (a >= 0 && b > 0) ==> er(a, b) == a % b
{
    let bb = abs_(b);
    lemma_mod_bound(a, bb);
    lemma_p2_pos(w); lemma_p2_pos(w - 1); lemma_p2_step(w);
    if bb == 1 { lemma_mod_bound(a, 1); }
}
// on which side an unrepresentable product / quotient lies: decided by the operand signs
pub proof fn lemma_sat_side_mul(s: bool, w: int, a: int, b: int, f: int)
    requires w >= 1, fits(s, w, a), fits(s, w, b), 0 <= f <= w
    ensures !fits(s, w, R_mul(a, b, f)) ==> (((a < 0) != (b < 0)) <==> R_mul(a, b, f) < min_of(s, w)),
            !fits(s, w, R_mul(a, b, f)) ==> (((a < 0) == (b < 0)) <==> R_mul(a, b, f) > max_of(s, w)),
            (a < 0) == (a < 0 * p2(f)), (b < 0) == (b < 0 * p2(f))
{
    lemma_p2_pos(f); lemma_p2_pos(w); lemma_p2_pos(w - 1);
    lemma_mul_sign(a, b);
    let p = a * b; let d = p2(f);
    lemma_fundamental_div_mod(p, d); lemma_mod_bound(p, d);
    // sign of floor(p / d): negative iff p < 0; non-negative iff p >= 0
    assert((p < 0) ==> p / d < 0) by (nonlinear_arith) requires p == d * (p / d) + p % d, 0 <= p % d < d, d > 0;
    assert((p >= 0) ==> p / d >= 0) by (nonlinear_arith) requires p == d * (p / d) + p % d, 0 <= p % d < d, d > 0;
}
pub proof fn lemma_sat_side_div(s: bool, w: int, a: int, b: int, f: int)
    requires w >= 1, fits(s, w, a), fits(s, w, b), 0 <= f <= w, b != 0
    ensures !fits(s, w, R_div(a, b, f)) ==> (((a < 0) != (b < 0)) <==> R_div(a, b, f) < min_of(s, w)),
            !fits(s, w, R_div(a, b, f)) ==> (((a < 0) == (b < 0)) <==> R_div(a, b, f) > max_of(s, w)),
            (a < 0) == (a < 0 * p2(f)), (b < 0) == (b < 0 * p2(f))
{
    lemma_p2_pos(f); lemma_p2_pos(w); lemma_p2_pos(w - 1);
    let n = a * p2(f);
    lemma_mul_sign(a, p2(f));
    lemma_tz_bounds(n, b);
    let q = tz(n, b);
    lemma_mul_sign(q, b);
    // q * b has the sign of n (or is zero), so q < 0 implies the signs of n and b differ, q > 0 that they agree
}
