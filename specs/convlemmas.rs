// ---- specs/convlemmas.rs: a conversion between layouts cannot overflow when the integer bits suffice ----
// source: signedness ss, width ws, fs fraction bits; destination sd, wd, fd; R_conv floors to the destination's grid
pub proof fn lemma_conv_fits(ss: bool, ws: int, fs: int, sd: bool, wd: int, fd: int, b: int)
    requires fits(ss, ws, b)
    ensures (0 <= fs <= ws && 0 <= fd <= wd && ws >= 1 && wd >= 1 && (ss ==> sd) && ws - fs <= wd - fd - (if !ss && sd { 1int } else { 0int }))
            ==> fits(sd, wd, R_conv(b, fs, fd))
{
    if 0 <= fs <= ws && 0 <= fd <= wd && ws >= 1 && wd >= 1 && (ss ==> sd) && ws - fs <= wd - fd - (if !ss && sd { 1int } else { 0int }) {
        let (ps, pd) = (p2(fs), p2(fd));
        lemma_p2_pos(fs); lemma_p2_pos(fd);
        let x = b * pd;
        let r = x / ps;
        lemma_fundamental_div_mod(x, ps); lemma_mod_bound(x, ps);
        // bounds of b in terms of integer-bit capacity: |b| < 2^(is + fs), is = ws - fs - (ss ? 1 : 0)
        let is_ = ws - fs - (if ss { 1int } else { 0int });
        let id_ = wd - fd - (if sd { 1int } else { 0int });
        assert(0 <= is_ <= id_ || is_ == -1 && ss) ;
        if is_ >= 0 {
            lemma_p2_add(is_, fs); lemma_p2_add(id_, fd); lemma_p2_mono(is_, id_); lemma_p2_pos(is_); lemma_p2_pos(id_);
            let (ci, cd) = (p2(is_), p2(id_));
            // b < ci * ps  ==>  x = b * pd < ci * ps * pd  ==>  r < ci * pd <= cd * pd
            assert(b < ci * ps);
            assert(r < ci * pd) by (nonlinear_arith) requires x == ps * r + x % ps, 0 <= x % ps, x == b * pd, b < ci * ps, ps > 0, pd > 0;
            assert(ci * pd <= cd * pd) by (nonlinear_arith) requires ci <= cd, pd > 0;
            if ss {
                assert(b >= -(ci * ps));
                assert(r >= -(ci * pd)) by (nonlinear_arith) requires x == ps * r + x % ps, x % ps < ps, x == b * pd, b >= -(ci * ps), ps > 0, pd > 0;
            } else {
                assert(r >= 0) by (nonlinear_arith) requires x == ps * r + x % ps, 0 <= x % ps < ps, x == b * pd, b >= 0, ps > 0, pd > 0;
            }
        } else {
            // a signed source with no integer bit at all: ws == fs, -h <= b < h with ps == 2h, value in [-1/2, 1/2)
            assert(ss && ws == fs && sd);
            lemma_p2_step(ws); lemma_p2_pos(ws - 1); lemma_p2_pos(wd - 1);
            let h = p2(ws - 1);
            if fd == 0 {
                assert(pd == 1) by { lemma2_to64(); }
                assert(-1 <= r <= 0) by (nonlinear_arith) requires x == ps * r + x % ps, 0 <= x % ps < ps, x == b * 1, -h <= b < h, ps == 2 * h, h > 0;
            } else {
                lemma_p2_step(fd); lemma_p2_pos(fd - 1); lemma_p2_mono(fd - 1, wd - 1);
                let pq = p2(fd - 1);
                assert(-pq <= r < pq) by (nonlinear_arith) requires x == ps * r + x % ps, 0 <= x % ps < ps, x == b * pd, -h <= b < h, ps == 2 * h, pd == 2 * pq, h > 0, pq > 0;
            }
        }
    }
}

// a conversion that drops no fraction bit is a plain scaling: floor(b * 2^fd / 2^fs) == b * 2^(fd - fs) for fs <= fd
pub proof fn lemma_conv_exact(b: int, fs: int, fd: int)
    ensures 0 <= fs <= fd ==> R_conv(b, fs, fd) == b * p2(fd - fs)
{
    if 0 <= fs <= fd {
        lemma_p2_add(fs, fd - fs); lemma_p2_pos(fs); lemma_p2_pos(fd - fs);
        let (ps, k) = (p2(fs), p2(fd - fs));
        assert(b * p2(fd) == ps * (b * k) + 0) by (nonlinear_arith) requires p2(fd) == ps * k;
        lemma_fundamental_div_mod_converse_div(b * p2(fd), ps, b * k, 0);
    }
}
