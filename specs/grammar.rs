// ---- specs/grammar.rs: the literal grammar of from_str.rs, written declaratively (C08) ----
//   literal := [ '+' | '-' ] digit* [ '.' digit* ]      with at least one digit in total
// errors: the FIRST offending byte decides - a sign that is not the first byte or a byte that is neither sign, point nor digit
// of the radix: InvalidDigit; a second point: TooManyPoints; no offending byte but no digit: NoDigits.
// result: the sign, the integer digits without leading zeros, the fraction digits without trailing zeros.
pub open spec fn validdig(b: u8, radix: u32) -> bool {
    (radix == 2 && 48 <= b <= 49) || (radix == 8 && 48 <= b <= 55) || (radix == 10 && 48 <= b <= 57)
    || (radix == 16 && ((48 <= b <= 57) || (97 <= b <= 102) || (65 <= b <= 70)))
}
pub open spec fn is_sign(b: u8) -> bool { b == 43 || b == 45 }
pub open spec fn has_point(s: Seq<u8>, k: int) -> bool { exists|j: int| 0 <= j < k && #[trigger] s[j] == 46 }
pub open spec fn has_digit(s: Seq<u8>, k: int, radix: u32) -> bool { exists|j: int| 0 <= j < k && validdig(#[trigger] s[j], radix) }
// what is wrong with byte i given the bytes before it
pub open spec fn bad(s: Seq<u8>, i: int, radix: u32) -> Option<ParseErrorKind> {
    if is_sign(s[i]) { if i > 0 { Some(ParseErrorKind::InvalidDigit) } else { None } }
    else if s[i] == 46 { if has_point(s, i) { Some(ParseErrorKind::TooManyPoints) } else { None } }
    else if validdig(s[i], radix) { None } else { Some(ParseErrorKind::InvalidDigit) }
}
// the complaint about the first offending byte among s[0..k)
pub open spec fn err_before(s: Seq<u8>, k: int, radix: u32) -> Option<ParseErrorKind>
    decreases k
{
    if k <= 0 { None } else { match err_before(s, k - 1, radix) { Some(e) => Some(e), None => bad(s, k - 1, radix) } }
}
pub open spec fn gerr(s: Seq<u8>, radix: u32) -> Option<ParseErrorKind> {
    match err_before(s, s.len() as int, radix) { Some(e) => Some(e), None => if has_digit(s, s.len() as int, radix) { None } else { Some(ParseErrorKind::NoDigits) } }
}
pub open spec fn point_pos(s: Seq<u8>) -> int
    decreases s.len()
{
    if s.len() == 0 { 0 } else if s[0] == 46 { 0 } else { 1 + point_pos(s.drop_first()) }
}
pub open spec fn trim_lead(t: Seq<u8>) -> Seq<u8>
    decreases t.len()
{
    if t.len() > 0 && t[0] == 48 { trim_lead(t.drop_first()) } else { t }
}
pub open spec fn trim_trail(t: Seq<u8>) -> Seq<u8>
    decreases t.len()
{
    if t.len() > 0 && t.last() == 48 { trim_trail(t.drop_last()) } else { t }
}
pub open spec fn gstart(s: Seq<u8>) -> int { if s.len() > 0 && is_sign(s[0]) { 1 } else { 0 } }
pub open spec fn gneg(s: Seq<u8>) -> bool { s.len() > 0 && s[0] == 45 }
pub open spec fn gint(s: Seq<u8>) -> Seq<u8> { trim_lead(s.subrange(gstart(s), point_pos(s))) }
pub open spec fn gfrac(s: Seq<u8>) -> Seq<u8> { let p = point_pos(s); if p < s.len() { trim_trail(s.subrange(p + 1, s.len() as int)) } else { Seq::empty() } }
// the accepted literals and their three parts
pub open spec fn parse_spec(s: Seq<u8>, radix: u32) -> Option<(bool, Seq<u8>, Seq<u8>)> {
    if gerr(s, radix).is_none() { Some((gneg(s), gint(s), gfrac(s))) } else { None }
}

pub proof fn lemma_err_none(s: Seq<u8>, k: int, radix: u32)
    requires 0 <= k <= s.len(), forall|j: int| 0 <= j < k ==> (#[trigger] bad(s, j, radix)).is_none()
    ensures err_before(s, k, radix).is_none()
    decreases k
{
    if k > 0 { lemma_err_none(s, k - 1, radix); }
}
// once byte i is the first offending one, the verdict no longer changes
pub proof fn lemma_err_first(s: Seq<u8>, i: int, n: int, radix: u32)
    requires 0 <= i < n <= s.len(), forall|j: int| 0 <= j < i ==> (#[trigger] bad(s, j, radix)).is_none(), bad(s, i, radix).is_some()
    ensures err_before(s, n, radix) == bad(s, i, radix)
    decreases n - i
{
    if n == i + 1 { lemma_err_none(s, i, radix); } else { lemma_err_first(s, i, n - 1, radix); }
}
pub proof fn lemma_point_pos(s: Seq<u8>, p: int)
    requires 0 <= p <= s.len(), forall|j: int| 0 <= j < p ==> #[trigger] s[j] != 46, p < s.len() ==> s[p] == 46
    ensures point_pos(s) == p
    decreases s.len()
{
    if s.len() > 0 && p > 0 {
        let t = s.drop_first();
        assert forall|j: int| 0 <= j < p - 1 implies #[trigger] t[j] != 46 by { assert(t[j] == s[j + 1]); }
        if p - 1 < t.len() { assert(t[p - 1] == s[p]); }
        lemma_point_pos(t, p - 1);
    }
}
pub proof fn lemma_trim_lead(s: Seq<u8>, a: int, st: int, b: int)
    requires 0 <= a <= st <= b <= s.len(), forall|j: int| a <= j < st ==> #[trigger] s[j] == 48, st < b ==> s[st] != 48
    ensures trim_lead(s.subrange(a, b)) == s.subrange(st, b)
    decreases st - a
{
    let t = s.subrange(a, b);
    if a < st { assert(t[0] == s[a]); assert(t.drop_first() =~= s.subrange(a + 1, b)); lemma_trim_lead(s, a + 1, st, b); }
    else if st < b { assert(t[0] == s[st]); }
}
pub proof fn lemma_trim_trail(s: Seq<u8>, a: int, e: int, b: int)
    requires 0 <= a <= e <= b <= s.len(), forall|j: int| e <= j < b ==> #[trigger] s[j] == 48, a < e ==> s[e - 1] != 48
    ensures trim_trail(s.subrange(a, b)) == s.subrange(a, e)
    decreases b - e
{
    let t = s.subrange(a, b);
    if e < b { assert(t.last() == s[b - 1]); assert(t.drop_last() =~= s.subrange(a, b - 1)); lemma_trim_trail(s, a, e, b - 1); }
    else if a < e { assert(t.last() == s[e - 1]); }
}
