// ---- Buffer::round_and_trim: rounding the digit buffer on the exact order flag of the remainder ----
// the region the carry loop walks: all digits and, when there is a fraction, the radix point
pub open spec fn rt_len(b: Buffer) -> int { if b.frac_digits > 0 { b.int_digits as int + b.frac_digits as int + 2 } else { b.int_digits as int + 1 } }
// round to nearest, ties to even, decided on the exact remainder: up iff the remainder is above one half, or equal to one half with an odd last digit
pub open spec fn rt_up(b: Buffer, c: Ordering) -> bool { c == Ordering::Greater || (c == Ordering::Equal && b.data@[rt_len(b) - 1] as int % 2 == 1) }
// digits lo .. ll (the radix point at dot excepted) were all `max` and have been set to zero; the radix point is untouched
pub open spec fn carried(s0: Seq<u8>, s1: Seq<u8>, lo: int, ll: int, idg: int, max: u8) -> bool {
    forall|i: int| #![trigger s0[i]] lo <= i < ll ==> (if i == idg + 1 { s1[i] == s0[i] } else { s0[i] == max && s1[i] == 0 })
}
// the carry stopped at index k: that digit was below max and is one larger, everything after it was max and is zero (and trimmed from the fraction), everything else is unchanged
pub open spec fn rounded_up_at(b0: Buffer, b1: Buffer, max: u8, k: int) -> bool {
    let idg = b0.int_digits as int; let ll = rt_len(b0);
    &&& 0 <= k < ll && k != idg + 1 && b0.data@[k] < max && b1.data@[k] == b0.data@[k] + 1
    &&& forall|i: int| #![trigger b0.data@[i]] 0 <= i < 130 && !(k <= i < ll) ==> b1.data@[i] == b0.data@[i]
    &&& carried(b0.data@, b1.data@, k + 1, ll, idg, max)
    &&& b1.int_digits == b0.int_digits
    &&& b1.frac_digits as int == (if k >= idg + 2 { k - (idg + 1) } else { 0 })
}
// not rounded up: the digits are unchanged and only zero digits are dropped from the end of the fraction
pub open spec fn trimmed(b0: Buffer, b1: Buffer) -> bool {
    &&& b1.data@ == b0.data@ && b1.int_digits == b0.int_digits && b1.frac_digits <= b0.frac_digits
    &&& forall|i: int| #![trigger b0.data@[i]] 2 + b0.int_digits as int + b1.frac_digits as int <= i < 2 + b0.int_digits as int + b0.frac_digits as int ==> b0.data@[i] == 0
}
// the VALUE statement: with r = max + 1 and D = the number of dropped fraction digits, new digit string * r^D == old digit string + (1 if rounded up)
pub open spec fn rt_value(b0: Buffer, b1: Buffer, max: u8, c: Ordering) -> bool {
    b1.int_digits == b0.int_digits && b1.frac_digits <= b0.frac_digits
    && rdigits(bdigits(b1), max as int + 1)
    && rv(bdigits(b1), max as int + 1) * ipow(max as int + 1, b0.frac_digits as int - b1.frac_digits as int) == rv(bdigits(b0), max as int + 1) + (if rt_up(b0, c) { 1int } else { 0int })
}
pub proof fn lemma_rv_allmax(s: Seq<u8>, r: int)
    requires r >= 2, forall|i: int| 0 <= i < s.len() ==> (#[trigger] s[i]) as int == r - 1
    ensures rv(s, r) == ipow(r, s.len() as int) - 1
    decreases s.len()
{
    if s.len() > 0 {
        let t = s.drop_last();
        assert forall|i: int| 0 <= i < t.len() implies (#[trigger] t[i]) as int == r - 1 by { assert(t[i] == s[i]); }
        lemma_rv_allmax(t, r);
        let p = ipow(r, t.len() as int);
        assert(ipow(r, s.len() as int) == r * p);
        assert((p - 1) * r + (r - 1) == r * p - 1) by (nonlinear_arith);
    }
}
pub proof fn lemma_rv_allzero(s: Seq<u8>, r: int)
    requires forall|i: int| 0 <= i < s.len() ==> (#[trigger] s[i]) == 0
    ensures rv(s, r) == 0
    decreases s.len()
{
    if s.len() > 0 {
        let t = s.drop_last();
        assert forall|i: int| 0 <= i < t.len() implies (#[trigger] t[i]) == 0 by { assert(t[i] == s[i]); }
        lemma_rv_allzero(t, r);
        assert(0 * r == 0) by (nonlinear_arith);
    }
}
// the carry: ... d max max max  ->  ... d+1 0 0 0 (zeros of the fraction dropped): new * r^dropped == old + 1
pub proof fn lemma_round_up_value(b0: Buffer, b1: Buffer, max: u8, k: int)
    requires finish_req(b0, max), rounded_up_at(b0, b1, max, k)
    ensures rdigits(bdigits(b1), max as int + 1), b1.frac_digits <= b0.frac_digits,
            rv(bdigits(b1), max as int + 1) * ipow(max as int + 1, b0.frac_digits as int - b1.frac_digits as int) == rv(bdigits(b0), max as int + 1) + 1
{
    let r = max as int + 1; let idg = b0.int_digits as int; let fd0 = b0.frac_digits as int; let fd1 = b1.frac_digits as int; let ll = rt_len(b0);
    let d0 = bdigits(b0); let d1 = bdigits(b1);
    let kk = if k <= idg { k } else { k - 1 };
    let n0 = d0.len() as int; let n1 = d1.len() as int;
    assert(n0 == 1 + idg + fd0 && n1 == 1 + idg + fd1);
    assert(kk + 1 <= n1 <= n0);
    assert forall|i: int| 0 <= i < n1 implies (#[trigger] d1[i] as int) < r by {
        let j = if i <= idg { i } else { i + 1 };
        assert(d1[i] == b1.data@[j]);
        if i < kk { assert(b1.data@[j] == b0.data@[j]); assert(d0[i] == b0.data@[j]); }
        else if i == kk { assert(j == k); }
        else { assert(k < j < ll && j != idg + 1); assert(b0.data@[j] == max); }
    }
    lemma_rv_split(d0, kk + 1, r); lemma_rv_split(d1, kk + 1, r);
    let p0 = d0.subrange(0, kk + 1); let p1 = d1.subrange(0, kk + 1);
    assert(p0.drop_last() =~= p1.drop_last()) by {
        assert forall|i: int| 0 <= i < kk implies p0.drop_last()[i] == p1.drop_last()[i] by {
            let j = if i <= idg { i } else { i + 1 };
            assert(d0[i] == b0.data@[j] && d1[i] == b1.data@[j]); assert(b1.data@[j] == b0.data@[j]);
        }
    }
    assert(d0[kk] == b0.data@[k] && d1[kk] == b1.data@[k]);
    assert(p0.last() == d0[kk] && p1.last() == d1[kk]);
    assert(rv(p1, r) == rv(p0, r) + 1);
    let m0 = d0.subrange(kk + 1, n0); let z1 = d1.subrange(kk + 1, n1);
    assert forall|i: int| 0 <= i < m0.len() implies (#[trigger] m0[i]) as int == r - 1 by {
        let ii = i + kk + 1; let j = if ii <= idg { ii } else { ii + 1 };
        assert(m0[i] == d0[ii] && d0[ii] == b0.data@[j]); assert(k < j < ll && j != idg + 1); assert(b0.data@[j] == max);
    }
    assert forall|i: int| 0 <= i < z1.len() implies (#[trigger] z1[i]) == 0 by {
        let ii = i + kk + 1; let j = if ii <= idg { ii } else { ii + 1 };
        assert(z1[i] == d1[ii] && d1[ii] == b1.data@[j]); assert(k < j < ll && j != idg + 1); assert(b0.data@[j] == max);
    }
    lemma_rv_allmax(m0, r); lemma_rv_allzero(z1, r);
    let a = n1 - kk - 1; let b = n0 - n1;
    assert(b == fd0 - fd1);
    lemma_ipow_add(r, a, b);
    let (x, pa, pb, pab) = (rv(p0, r), ipow(r, a), ipow(r, b), ipow(r, a + b));
    assert(m0.len() == a + b && z1.len() == a);
    assert(rv(d0, r) == x * pab + pab - 1);
    assert(rv(d1, r) == (x + 1) * pa);
    assert(((x + 1) * pa) * pb == x * pab + pab) by (nonlinear_arith) requires pab == pa * pb;
}
// trimming zeros: new * r^dropped == old
pub proof fn lemma_trim_value(b0: Buffer, b1: Buffer, max: u8)
    requires finish_req(b0, max), trimmed(b0, b1)
    ensures rdigits(bdigits(b1), max as int + 1),
            rv(bdigits(b1), max as int + 1) * ipow(max as int + 1, b0.frac_digits as int - b1.frac_digits as int) == rv(bdigits(b0), max as int + 1)
{
    let r = max as int + 1; let idg = b0.int_digits as int; let fd0 = b0.frac_digits as int; let fd1 = b1.frac_digits as int;
    let d0 = bdigits(b0); let d1 = bdigits(b1); let n0 = d0.len() as int; let n1 = d1.len() as int;
    assert(d1 =~= d0.subrange(0, n1));
    assert forall|i: int| 0 <= i < n1 implies (#[trigger] d1[i] as int) < r by { assert(d1[i] == d0[i]); }
    lemma_rv_split(d0, n1, r);
    let z = d0.subrange(n1, n0);
    assert forall|i: int| 0 <= i < z.len() implies (#[trigger] z[i]) == 0 by {
        let ii = i + n1; assert(ii > idg); assert(z[i] == d0[ii] && d0[ii] == b0.data@[ii + 1]);
    }
    lemma_rv_allzero(z, r);
}
pub open spec fn is_ascii_digit(c: u8) -> bool { (48 <= c <= 57) || (65 <= c <= 70) || (97 <= c <= 102) }
