// ---- specs/bridge_mask.rs (T,U,W,S,LO,HI): the mask idioms of `fixed_frac!` as integer facts ----
pub proof fn lemma_masks_{{T}}(f: u32)
    requires f <= {{W}}
    ensures
        ((!(0 as {{T}})) << (f / 2)) << ((f - f / 2) as u32) == (if f == {{W}} { 0 as {{T}} } else { (!(0 as {{T}})) << f }),
        f < {{W}} ==> ((((!(0 as {{T}})) << f) ^ (((!(0 as {{T}})) << f) << 1u32)) as {{U}}) == (1 as {{U}}) << f,
        f < {{W}} ==> ((!((!(0 as {{T}})) << f)) as {{U}}) == (((1 as {{U}}) << f) - 1) as {{U}},
        0 < f < {{W}} ==> (((!((!(0 as {{T}})) << f)) ^ ((((!((!(0 as {{T}})) << f)) as {{U}}) >> 1u32) as {{T}})) as {{U}}) == (1 as {{U}}) << ((f - 1) as u32),
        ((!(0 as {{T}})) ^ ((((!(0 as {{T}})) as {{U}}) >> 1u32) as {{T}})) as {{U}} == (1 as {{U}}) << (({{W}} - 1) as u32),
        (!((!(0 as {{T}})) << 0u32)) == 0 as {{T}}, ((0 as {{T}}) ^ ((((0 as {{T}})) as {{U}}) >> 1u32) as {{T}}) == 0 as {{T}},
        (0 as {{T}}) ^ ((0 as {{T}}) << 1u32) == 0 as {{T}}, !(0 as {{T}}) != 0 as {{T}},
{
    assert(((!(0 as {{T}})) << (f / 2)) << ((f - f / 2) as u32) == (if f == {{W}} { 0 as {{T}} } else { (!(0 as {{T}})) << f })) by (bit_vector) requires f <= {{W}};
    if f < {{W}} {
        assert(((((!(0 as {{T}})) << f) ^ (((!(0 as {{T}})) << f) << 1u32)) as {{U}}) == (1 as {{U}}) << f) by (bit_vector) requires f < {{W}};
        assert(((!((!(0 as {{T}})) << f)) as {{U}}) == (((1 as {{U}}) << f) - 1) as {{U}}) by (bit_vector) requires f < {{W}};
        if f > 0 {
            assert((((!((!(0 as {{T}})) << f)) ^ ((((!((!(0 as {{T}})) << f)) as {{U}}) >> 1u32) as {{T}})) as {{U}}) == (1 as {{U}}) << ((f - 1) as u32)) by (bit_vector) requires 0 < f < {{W}};
        }
    }
    assert(((!(0 as {{T}})) ^ ((((!(0 as {{T}})) as {{U}}) >> 1u32) as {{T}})) as {{U}} == (1 as {{U}}) << (({{W}} - 1) as u32)) by (bit_vector);
    assert((!((!(0 as {{T}})) << 0u32)) == 0 as {{T}}) by (bit_vector);
    assert(((0 as {{T}}) ^ ((((0 as {{T}})) as {{U}}) >> 1u32) as {{T}}) == 0 as {{T}}) by (bit_vector);
    assert((0 as {{T}}) ^ ((0 as {{T}}) << 1u32) == 0 as {{T}}) by (bit_vector);
    assert(!(0 as {{T}}) != 0 as {{T}}) by (bit_vector);
}
// b & INT_MASK == floor, b & FRAC_MASK == b - floor (f < W)
pub proof fn lemma_and_mask_{{T}}(b: {{T}}, f: u32)
    requires f < {{W}}
    ensures (b & ((!(0 as {{T}})) << f)) as int == floor_(b as int, f as int),
            (b & !((!(0 as {{T}})) << f)) as int == b as int - floor_(b as int, f as int),
            0 <= b as int - floor_(b as int, f as int) < p2(f as int),
{
    lemma_shr_{{T}}(b, f);
    let q = b >> f;
    assert((b & ((!(0 as {{T}})) << f)) == (b >> f) << f) by (bit_vector) requires f < {{W}};
    assert((b & !((!(0 as {{T}})) << f)) as int == b as int - ((b >> f) << f) as int && (b as int - ((b >> f) << f) as int) >= 0) by (bit_vector) requires f < {{W}};
    lemma_p2_pos(f as int);
    lemma_fundamental_div_mod(b as int, p2(f as int)); lemma_mod_bound(b as int, p2(f as int));
    let qi = (b as int) / p2(f as int);
    assert(qi * p2(f as int) == p2(f as int) * qi) by (nonlinear_arith);
    // q << f == q * 2^f exactly, because q * 2^f = floor(b / 2^f) * 2^f lies between b - 2^f + 1 and b
    assert(fits({{S}}, {{W}}, q as int * p2(f as int))) by {
        lemma_p2_consts();
        assert(qi * p2(f as int) <= b as int);
        if {{S}} {
            // floor_ of a value >= -2^(W-1) with f < W is >= -2^(W-1) (a multiple of 2^f)
            lemma_round_facts({{S}}, {{W}}, b as int, f as int);
        } else {
            assert(qi >= 0) by (nonlinear_arith) requires b as int == p2(f as int) * qi + (b as int) % p2(f as int), 0 <= (b as int) % p2(f as int) < p2(f as int), b as int >= 0;
            assert(qi * p2(f as int) >= 0) by (nonlinear_arith) requires qi >= 0, p2(f as int) > 0;
        }
    }
    lemma_shl_{{T}}(q, f);
}
// the rounding bit: (b & FRAC_MSB) == 0  <=>  twice the fraction is below one; FRAC_MSB pattern == half (1 <= f <= W)
pub proof fn lemma_msb_{{T}}(b: {{T}}, f: u32)
    requires 1 <= f <= {{W}}
    ensures ((b as {{U}}) & ((1 as {{U}}) << ((f - 1) as u32)) == 0) <==> 2 * (b as int - floor_(b as int, f as int)) < p2(f as int),
            f < {{W}} ==> ((((b & !((!(0 as {{T}})) << f)) as {{U}}) == ((1 as {{U}}) << ((f - 1) as u32))) <==> 2 * (b as int - floor_(b as int, f as int)) == p2(f as int)),
            f == {{W}} ==> (((b as {{U}}) == ((1 as {{U}}) << ((f - 1) as u32))) <==> 2 * (b as int - floor_(b as int, f as int)) == p2(f as int)),
{
    let g = (f - 1) as u32;
    lemma_p2_of_{{T}}(g); lemma_p2_step(f as int); lemma_p2_pos(g as int); lemma_p2_consts();
    if f < {{W}} {
        lemma_and_mask_{{T}}(b, f);
        let fr = b & !((!(0 as {{T}})) << f);
        assert((((b as {{U}}) & ((1 as {{U}}) << g)) == 0) <==> ((fr as {{U}}) < ((1 as {{U}}) << g))) by (bit_vector)
            requires fr == b & !((!(0 as {{T}})) << f), g + 1 == f, f < {{W}};
        assert((fr as {{U}}) as int == fr as int) by (bit_vector) requires fr == b & !((!(0 as {{T}})) << f), f < {{W}};
    } else {
        lemma_round_facts({{S}}, {{W}}, b as int, f as int);
        assert((((b as {{U}}) & ((1 as {{U}}) << g)) == 0) <==> (b as {{U}}) < ((1 as {{U}}) << g)) by (bit_vector) requires g == {{W}} - 1;
        assert((b as {{U}}) as int == (if (b as int) < 0 { b as int + {{HI}}int + {{HI}}int - ({{LO}}int + {{HI}}int) - ({{LO}}int + {{HI}}int) } else { b as int })) by (bit_vector);
    }
}
// the integer's lowest bit: (fl & INT_LSB) == 0  <=>  floor(b / 2^f) is even (f < W)
pub proof fn lemma_lsb_{{T}}(b: {{T}}, f: u32)
    requires f < {{W}}
    ensures (((b & ((!(0 as {{T}})) << f)) as {{U}}) & ((1 as {{U}}) << f) == 0) <==> ((b as int) / p2(f as int)) % 2 == 0
{
    lemma_shr_{{T}}(b, f);
    let q = b >> f;
    assert((((b & ((!(0 as {{T}})) << f)) as {{U}}) & ((1 as {{U}}) << f) == 0) <==> ((b >> f) & 1 == 0)) by (bit_vector) requires f < {{W}};
    assert((q & 1 == 0) <==> (q as int) % 2 == 0) by (bit_vector);
}
// a T whose bit pattern is the single bit n has the value wrap(2^n)
pub proof fn lemma_bit_value_{{T}}(n: u32)
    requires n < {{W}}
    ensures forall|r: {{T}}| #[trigger] (r as {{U}}) == (1 as {{U}}) << n ==> r as int == wrap({{S}}, {{W}}, p2(n as int))
{
    lemma_p2_of_{{T}}(n); lemma_p2_consts();
    assert forall|r: {{T}}| #[trigger] (r as {{U}}) == (1 as {{U}}) << n implies r as int == wrap({{S}}, {{W}}, p2(n as int)) by {
        let u = (1 as {{U}}) << n;
        assert(((r as {{U}}) as int - r as int) % {{HI}}int == 0 || ((r as {{U}}) as int - r as int) % ({{HI}}int + {{HI}}int) == 0) by (bit_vector);
        assert(r as int == (r as {{U}}) as int || r as int == (r as {{U}}) as int - ({{HI}}int - {{LO}}int)) by (bit_vector);
        if r as int == p2(n as int) { lemma_wrap_unique({{S}}, {{W}}, p2(n as int), r as int, 0); }
        else { lemma_wrap_unique({{S}}, {{W}}, p2(n as int), r as int, -1); }
    }
}
pub proof fn lemma_fits_{{T}}(b: {{T}}) ensures fits({{S}}, {{W}}, b as int) { lemma_p2_consts(); }
// `x & m == 0` on T is the same test on the unsigned reinterpretation; equality of patterns likewise
pub proof fn lemma_and_cast_{{T}}()
    ensures forall|x: {{T}}, m: {{T}}| (#[trigger] (x & m) == 0) <==> ((x as {{U}}) & (m as {{U}}) == 0),
            forall|x: {{T}}, m: {{T}}| #![trigger (x as {{U}}), (m as {{U}})] (x == m) <==> ((x as {{U}}) == (m as {{U}})),
{
    assert forall|x: {{T}}, m: {{T}}| (#[trigger] (x & m) == 0) <==> ((x as {{U}}) & (m as {{U}}) == 0) by {
        assert(((x & m) == 0) <==> ((x as {{U}}) & (m as {{U}}) == 0)) by (bit_vector);
    }
    assert forall|x: {{T}}, m: {{T}}| #![trigger (x as {{U}}), (m as {{U}})] (x == m) <==> ((x as {{U}}) == (m as {{U}})) by {
        assert((x == m) <==> ((x as {{U}}) == (m as {{U}}))) by (bit_vector);
    }
}
