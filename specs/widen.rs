// ---- specs/widen.rs: parameter-only arithmetic lemmas for the widening multiply / divide ----
// mul_overflow computes, at 2w bits,  Y = a * (b * 2^(w-f)),  takes overflowing_mul's wrapped value
// and flag, and returns ((wrapped >> w) as T, flag).  The lemma relates that to R_mul(a,b,f) at w bits.
pub proof fn lemma_mul_widen(s: bool, w: int, a: int, b: int, f: int)
    requires w >= 1, fits(s, w, a), fits(s, w, b), 0 <= f <= w
    ensures
        fits(s, 2 * w, b * p2(w - f)),
        fits(s, 2 * w, a * (b * p2(w - f))) == fits(s, w, R_mul(a, b, f)),
        wrap(s, w, wrap(s, 2 * w, a * (b * p2(w - f))) / p2(w)) == wrap(s, w, R_mul(a, b, f)),
{
    let g = w - f;
    let (G, Fp, Wp, W2, H, H2) = (p2(g), p2(f), p2(w), p2(2 * w), p2(w - 1), p2(2 * w - 1));
    lemma_p2_pos(g); lemma_p2_pos(f); lemma_p2_pos(w); lemma_p2_pos(w - 1);
    lemma_p2_add(g, f); lemma_p2_add(w, w); lemma_p2_add(w - 1, w);
    lemma_p2_step(w); lemma_p2_step(2 * w);
    assert(Wp == G * Fp && W2 == Wp * Wp && H2 == H * Wp && Wp == 2 * H && W2 == 2 * H2);
    assert(G <= Wp) by (nonlinear_arith) requires Wp == G * Fp, Fp >= 1, G >= 1;
    let P = a * b;
    let Y = a * (b * G);
    assert(Y == P * G) by (nonlinear_arith) requires Y == a * (b * G), P == a * b;
    lemma_fundamental_div_mod(P, Fp); lemma_mod_bound(P, Fp);
    let q = P / Fp; let r = P % Fp;
    assert(P == Fp * q + r);
    if s {
        assert(-H2 <= b * G && b * G < H2) by (nonlinear_arith) requires -H <= b < H, 1 <= G <= Wp, H2 == H * Wp, H >= 1;
        assert((-H2 <= P * G) == (-H <= q)) by (nonlinear_arith)
            requires P == Fp * q + r, 0 <= r < Fp, H2 == H * Wp, Wp == G * Fp, G >= 1, Fp >= 1, H >= 1;
        assert((P * G < H2) == (q < H)) by (nonlinear_arith)
            requires P == Fp * q + r, 0 <= r < Fp, H2 == H * Wp, Wp == G * Fp, G >= 1, Fp >= 1, H >= 1;
    } else {
        assert(0 <= b * G && b * G < W2) by (nonlinear_arith) requires 0 <= b < Wp, 1 <= G <= Wp, W2 == Wp * Wp;
        assert(0 <= P) by (nonlinear_arith) requires P == a * b, a >= 0, b >= 0;
        assert(0 <= P * G && 0 <= q) by (nonlinear_arith) requires P >= 0, G >= 1, P == Fp * q + r, 0 <= r < Fp;
        assert((P * G < W2) == (q < Wp)) by (nonlinear_arith)
            requires P == Fp * q + r, 0 <= r < Fp, W2 == Wp * Wp, Wp == G * Fp, G >= 1, Fp >= 1;
    }
    let yw = wrap(s, 2 * w, Y);
    let k = lemma_wrap_diff(s, 2 * w, Y);
    assert(yw == Y - k * W2);
    assert(Y == Wp * q + G * r && 0 <= G * r < Wp) by (nonlinear_arith)
        requires Y == P * G, P == Fp * q + r, 0 <= r < Fp, Wp == G * Fp, G >= 1;
    assert(yw == Wp * (q - k * Wp) + G * r) by (nonlinear_arith)
        requires yw == Y - k * W2, Y == Wp * q + G * r, W2 == Wp * Wp;
    lemma_fundamental_div_mod_converse_div(yw, Wp, q - k * Wp, G * r);
    assert(yw / Wp == q - k * Wp);
    lemma_wrap_shift(s, w, q, -k);
    assert(q + (-k) * Wp == q - k * Wp) by (nonlinear_arith);
}

// truncating division facts
pub proof fn lemma_tz_bounds(a: int, b: int)
    requires b != 0
    ensures ({ let q = tz(a, b); let r = a - q * b;
               &&& (a >= 0 ==> r >= 0) &&& (a <= 0 ==> r <= 0)
               &&& (b > 0 ==> -b < r < b) &&& (b < 0 ==> b < r < -b)
               &&& (a >= 0 && b > 0 ==> q == a / b)
               &&& (a >= 0 ==> 0 <= q * b <= a) &&& (a <= 0 ==> a <= q * b <= 0)
               &&& (if a >= 0 { a } else { -a }) >= (if q >= 0 { q } else { -q }) })
{
    let aa = if a >= 0 { a } else { -a };
    let bb = if b > 0 { b } else { -b };
    lemma_fundamental_div_mod(aa, bb); lemma_mod_bound(aa, bb);
    let q0 = aa / bb; let r0 = aa % bb;
    assert(aa == bb * q0 + r0);
    let q = tz(a, b);
    assert(q == if (a >= 0) == (b > 0) { q0 } else { -q0 });
    assert(q0 >= 0) by (nonlinear_arith) requires aa == bb * q0 + r0, 0 <= r0 < bb, aa >= 0;
    assert(q * b == if a >= 0 { bb * q0 } else { -(bb * q0) }) by (nonlinear_arith)
        requires q == if (a >= 0) == (b > 0) { q0 } else { -q0 }, bb == if b > 0 { b } else { -b };
    assert(bb * q0 >= q0) by (nonlinear_arith) requires bb >= 1, q0 >= 0;
}

// div_overflow computes, at 2w bits, Q = wrapping_div(a * 2^f, b), and returns
// (Q as T, (Q >> w) != (if (Q as T) < 0 { -1 } else { 0 }))          [signed]
// (Q as T, (Q >> w) != 0)                                             [unsigned]
pub proof fn lemma_div_widen(s: bool, w: int, a: int, b: int, f: int)
    requires w >= 1, fits(s, w, a), fits(s, w, b), 0 <= f <= w, b != 0
    ensures
        fits(s, 2 * w, a * p2(f)),
        ({ let R = R_div(a, b, f); let Q = wrap(s, 2 * w, R);
           &&& (Q == R || (s && a * p2(f) == -p2(2 * w - 1) && b == -1))
           &&& wrap(s, w, Q) == wrap(s, w, R)
           &&& ((Q / p2(w)) != (if s && wrap(s, w, Q) < 0 { -1int } else { 0int })) == !fits(s, w, R) }),
{
    let (Fp, Wp, W2, H, H2) = (p2(f), p2(w), p2(2 * w), p2(w - 1), p2(2 * w - 1));
    lemma_p2_pos(f); lemma_p2_pos(w); lemma_p2_pos(w - 1);
    lemma_p2_add(w, w); lemma_p2_add(w - 1, w);
    lemma_p2_step(w); lemma_p2_step(2 * w);
    lemma_p2_mono(f, w);
    assert(W2 == Wp * Wp && H2 == H * Wp && Wp == 2 * H && W2 == 2 * H2 && 1 <= Fp <= Wp);
    let N = a * Fp;
    if s {
        assert(-H2 <= N && N < H2) by (nonlinear_arith) requires N == a * Fp, -H <= a < H, 1 <= Fp <= Wp, H2 == H * Wp, H >= 1;
    } else {
        assert(0 <= N && N < W2) by (nonlinear_arith) requires N == a * Fp, 0 <= a < Wp, 1 <= Fp <= Wp, W2 == Wp * Wp;
    }
    let R = tz(N, b);
    lemma_tz_bounds(N, b);
    let rem = N - R * b;
    // |R| <= |N|
    assert((if N >= 0 { N } else { -N }) >= (if R >= 0 { R } else { -R }));
    if s && N == -H2 && b == -1 {
        assert(R == H2) by (nonlinear_arith) requires rem == N - R * b, b == -1, -1 < rem < 1, N == -H2;
        // Q = wrap(2w, 2^(2w-1)) = -2^(2w-1)
        lemma_wrap_unique(true, 2 * w, R, -H2, -1);
        let Q = wrap(s, 2 * w, R);
        assert(Q == -H2);
        // wrap(w, -H2) == wrap(w, H2) == 0
        assert(H2 == 0 + H * Wp);
        lemma_wrap_shift(true, w, 0, H);
        assert(-H2 == 0 + (-H) * Wp) by (nonlinear_arith) requires H2 == H * Wp;
        lemma_wrap_shift(true, w, 0, -H);
        lemma_wrap_id(true, w, 0);
        assert(wrap(s, w, Q) == 0 && wrap(s, w, R) == 0);
        assert(-H2 == Wp * (-H) + 0) by (nonlinear_arith) requires H2 == H * Wp;
        lemma_fundamental_div_mod_converse_div(-H2, Wp, -H, 0);
        assert(Q / Wp == -H);
        assert(H2 >= H) by (nonlinear_arith) requires H2 == H * Wp, Wp >= 1, H >= 1;
        assert(!fits(s, w, R));
    } else {
        // R fits in 2w bits
        if s {
            assert(-H2 <= R);
            if R >= H2 {
                // then N == -H2, R == H2, and N <= R*b <= 0 forces b == -1: excluded
                assert(N == -H2 && R == H2);
                assert(N <= R * b <= 0);
                assert(b == -1) by (nonlinear_arith) requires -H2 <= H2 * b, H2 * b <= 0, b != 0, H2 >= 1;
                assert(false);
            }
        } else {
            assert(b > 0 && N >= 0);
            assert(R >= 0) by (nonlinear_arith) requires 0 <= R * b, b > 0;
        }
        lemma_wrap_id(s, 2 * w, R);
        let Q = R;
        // floor(Q / 2^w) versus the sign extension of the low half
        lemma_fundamental_div_mod(Q, Wp); lemma_mod_bound(Q, Wp);
        let qh = Q / Wp; let ql = Q % Wp;
        assert(Q == Wp * qh + ql);
        if s {
            if ql >= H {
                assert(wrap(s, w, Q) == ql - Wp);
                // fits <=> Q == ql - Wp <=> qh == -1
                assert((qh == -1) == (Q == ql - Wp)) by (nonlinear_arith) requires Q == Wp * qh + ql, Wp >= 1;
            } else {
                assert(wrap(s, w, Q) == ql);
                assert((qh == 0) == (Q == ql)) by (nonlinear_arith) requires Q == Wp * qh + ql, Wp >= 1;
            }
            lemma_fits_wrap(s, w, Q);
        } else {
            assert(wrap(s, w, Q) == ql);
            assert((qh == 0) == (Q == ql)) by (nonlinear_arith) requires Q == Wp * qh + ql, Wp >= 1;
            lemma_fits_wrap(s, w, Q);
        }
    }
}
