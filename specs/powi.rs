// ---- specs/powi.rs: error of the repeated floor-multiplication in powi (C15) ----
// Bit patterns: X = operand, one = 2^f, r_j = result after j - 1 multiplications (r_1 = X), the exact power x^j in units of the
// last place is X^j / one^(j-1).  Stated without division: D_j = r_j * one^(j-1) - X^j.
pub open spec fn amax(x: int, one: int) -> int { if abs_(x) > one { abs_(x) } else { one } }
pub open spec fn powi_within(r: int, x: int, n: int, one: int, slack: int) -> bool {
    n >= 1 && abs_(r * pow(one, (n - 1) as nat) - pow(x, n as nat)) <= slack * pow(amax(x, one), (n - 1) as nat)
}
pub proof fn lemma_pow_unfold(b: int, n: int)
    requires n >= 1
    ensures pow(b, n as nat) == b * pow(b, (n - 1) as nat)
{
    reveal(pow);
}
pub proof fn lemma_powi_init(x: int, one: int)
    requires one >= 1
    ensures powi_within(x, x, 1, one, 0)
{
    reveal(pow);
    lemma_pow0(one); lemma_pow0(amax(x, one)); lemma_pow1(x);
    assert(x * pow(one, 0) == x) by (nonlinear_arith) requires pow(one, 0) == 1;
}
pub proof fn lemma_powi_step(r: int, x: int, one: int, j: int, r2: int)
    requires one >= 1, j >= 1, powi_within(r, x, j, one, j - 1), r2 == (r * x) / one
    ensures powi_within(r2, x, j + 1, one, j)
{
    let a = amax(x, one);
    let oj1 = pow(one, (j - 1) as nat); let oj = pow(one, j as nat);
    let xj = pow(x, j as nat); let xj1 = pow(x, (j + 1) as nat);
    let aj1 = pow(a, (j - 1) as nat); let aj = pow(a, j as nat);
    lemma_pow_unfold(one, j); lemma_pow_unfold(x, j + 1); lemma_pow_unfold(a, j);
    lemma_pow_positive(one, (j - 1) as nat); lemma_pow_positive(a, (j - 1) as nat);
    lemma_pow_increases_base(one, a, j - 1);
    let d = r * oj1 - xj;
    lemma_fundamental_div_mod(r * x, one); lemma_mod_bound(r * x, one);
    let rho = (r * x) % one;
    assert(r * x == one * r2 + rho && 0 <= rho < one);
    // D' = x * D - rho * one^(j-1)
    let d2 = r2 * oj - xj1;
    assert(d2 == x * d - rho * oj1) by (nonlinear_arith)
        requires d2 == r2 * oj - xj1, oj == one * oj1, xj1 == x * xj, d == r * oj1 - xj, r * x == one * r2 + rho;
    // |x * D| <= a * (j - 1) * a^(j-1), rho * one^(j-1) <= one * one^(j-1) <= a * a^(j-1)
    assert(abs_(x) <= a && one <= a);
    assert(abs_(x * d) <= a * ((j - 1) * aj1)) by (nonlinear_arith) requires abs_(x) <= a, abs_(d) <= (j - 1) * aj1, a >= 1, (j - 1) * aj1 >= 0;
    assert((j - 1) * aj1 >= 0) by (nonlinear_arith) requires j >= 1, aj1 > 0;
    assert(0 <= rho * oj1 <= a * aj1) by (nonlinear_arith) requires 0 <= rho < one, one <= a, 0 < oj1 <= aj1;
    assert(a * ((j - 1) * aj1) + a * aj1 == j * aj) by (nonlinear_arith) requires aj == a * aj1;
}
// base monotonicity of pow for 1 <= b <= c
pub proof fn lemma_pow_increases_base(b: int, c: int, n: int)
    requires 1 <= b <= c, n >= 0
    ensures 0 < pow(b, n as nat) <= pow(c, n as nat)
    decreases n
{
    reveal(pow);
    if n == 0 { lemma_pow0(b); lemma_pow0(c); }
    else {
        lemma_pow_increases_base(b, c, n - 1);
        lemma_pow_unfold(b, n); lemma_pow_unfold(c, n);
        let (pb, pc) = (pow(b, (n - 1) as nat), pow(c, (n - 1) as nat));
        assert(0 < b * pb <= c * pc) by (nonlinear_arith) requires 1 <= b <= c, 0 < pb <= pc;
    }
}
pub proof fn lemma_powi_weaken(r: int, x: int, n: int, one: int, s1: int, s2: int)
    requires powi_within(r, x, n, one, s1), s1 <= s2, one >= 1
    ensures powi_within(r, x, n, one, s2)
{
    let a = amax(x, one);
    lemma_pow_positive(a, (n - 1) as nat);
    assert(s1 * pow(a, (n - 1) as nat) <= s2 * pow(a, (n - 1) as nat)) by (nonlinear_arith) requires s1 <= s2, pow(a, (n - 1) as nat) > 0;
}
