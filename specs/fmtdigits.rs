// ---- specs/fmtdigits.rs: the value of a run of raw digits in the formatter's buffer (C09) ----
// digits are raw values (0 ..= radix-1), most significant first: rv(s, r) = sum of s[i] * r^(len-1-i)
pub open spec fn rv(s: Seq<u8>, r: int) -> int
    decreases s.len()
{
    if s.len() == 0 { 0 } else { rv(s.drop_last(), r) * r + s.last() as int }
}
pub open spec fn rdigits(s: Seq<u8>, r: int) -> bool { forall|i: int| 0 <= i < s.len() ==> (#[trigger] s[i] as int) < r }
pub proof fn lemma_rv_push_back(s: Seq<u8>, k: int, r: int)
    requires 0 <= k < s.len()
    ensures rv(s.take(k + 1), r) == rv(s.take(k), r) * r + s[k] as int
{
    assert(s.take(k + 1).drop_last() =~= s.take(k));
    assert(s.take(k + 1).last() == s[k]);
}
pub proof fn lemma_rv_split(s: Seq<u8>, k: int, r: int)
    requires 0 <= k <= s.len()
    ensures rv(s, r) == rv(s.subrange(0, k), r) * ipow(r, s.len() as int - k) + rv(s.subrange(k, s.len() as int), r)
    decreases s.len() - k
{
    let n = s.len() as int;
    if k == n {
        assert(s.subrange(0, n) =~= s); assert(s.subrange(n, n).len() == 0);
    } else {
        let t = s.drop_last();
        lemma_rv_split(t, k, r);
        assert(t.subrange(0, k) =~= s.subrange(0, k));
        assert(t.subrange(k, n - 1) =~= s.subrange(k, n).drop_last());
        assert(s.subrange(k, n).last() == s.last());
        let (a, b, p) = (rv(s.subrange(0, k), r), rv(t.subrange(k, n - 1), r), ipow(r, n - 1 - k));
        assert(ipow(r, n - k) == r * p);
        assert((a * p + b) * r == a * (r * p) + b * r) by (nonlinear_arith);
    }
}
// one more digit in front: rv(s[k..n]) = s[k] * r^(n-k-1) + rv(s[k+1..n])
pub proof fn lemma_rv_push_front(s: Seq<u8>, k: int, r: int)
    requires 0 <= k < s.len()
    ensures rv(s.subrange(k, s.len() as int), r) == s[k] as int * ipow(r, s.len() as int - k - 1) + rv(s.subrange(k + 1, s.len() as int), r)
{
    let n = s.len() as int;
    let u = s.subrange(k, n);
    lemma_rv_split(u, 1, r);
    assert(u.subrange(1, n - k) =~= s.subrange(k + 1, n));
    let h = u.subrange(0, 1);
    assert(h.len() == 1);
    assert(h.drop_last().len() == 0);
    assert(h.last() == s[k]);
    assert(rv(h.drop_last(), r) == 0);
    assert(rv(h, r) == rv(h.drop_last(), r) * r + h.last() as int);
    assert(rv(h, r) == s[k] as int) by (nonlinear_arith) requires rv(h, r) == rv(h.drop_last(), r) * r + h.last() as int, rv(h.drop_last(), r) == 0, h.last() == s[k];
    assert(u.len() as int - 1 == n - k - 1);
    assert(rv(u, r) == rv(h, r) * ipow(r, n - k - 1) + rv(u.subrange(1, n - k), r));
}
pub proof fn lemma_rv_bounds(s: Seq<u8>, r: int)
    requires rdigits(s, r), r >= 2
    ensures 0 <= rv(s, r) < ipow(r, s.len() as int)
    decreases s.len()
{
    if s.len() > 0 {
        let t = s.drop_last();
        assert(rdigits(t, r)) by { assert forall|i: int| 0 <= i < t.len() implies (#[trigger] t[i] as int) < r by { assert(t[i] == s[i]); } }
        lemma_rv_bounds(t, r);
        let d = s.last() as int;
        assert(0 <= d <= r - 1);
        let (v, p) = (rv(t, r), ipow(r, t.len() as int));
        assert(v * r + d < r * p) by (nonlinear_arith) requires 0 <= v, v < p, 0 <= d <= r - 1, r >= 2;
        assert(v * r + d >= 0) by (nonlinear_arith) requires 0 <= v, d >= 0, r >= 2;
        assert(ipow(r, s.len() as int) == r * p);
    }
}
pub proof fn lemma_rv_ext(s: Seq<u8>, t: Seq<u8>, r: int)
    requires s =~= t
    ensures rv(s, r) == rv(t, r)
{}
// ---- the formatter's buffer: data[0] spare leading digit, data[1 .. 1+int_digits] integer digits, '.', then frac_digits fraction digits ----
pub open spec fn buf_ok(b: Buffer) -> bool { b.int_digits + b.frac_digits <= 128 }
pub open spec fn int_seq(b: Buffer) -> Seq<u8> { b.data@.subrange(1, 1 + b.int_digits as int) }
pub open spec fn frac_seq(b: Buffer) -> Seq<u8> { b.data@.subrange(2 + b.int_digits as int, 2 + b.int_digits as int + b.frac_digits as int) }
// everything outside data[lo .. hi) is unchanged
pub open spec fn same_outside(a: Buffer, b: Buffer, lo: int, hi: int) -> bool {
    a.int_digits == b.int_digits && a.frac_digits == b.frac_digits && forall|i: int| 0 <= i < 130 && !(lo <= i < hi) ==> a.data@[i] == b.data@[i]
}
// ---- decimal digits of a binary fraction x / 2^w: after m digits, x * 10^m = fdig * 2^w + frem ----
pub open spec fn fdig(x: int, m: int, w: int) -> int { (x * ipow(10, m)) / p2(w) }
pub open spec fn frem(x: int, m: int, w: int) -> int { (x * ipow(10, m)) % p2(w) }
pub open spec fn ordi(a: int, b: int) -> Ordering { if a < b { Ordering::Less } else if a == b { Ordering::Equal } else { Ordering::Greater } }
pub open spec fn imin(a: int, b: int) -> int { if a < b { a } else { b } }
// the m-digit expansion, rounded to nearest, is strictly within half a unit of the last of `nbits` fractional bits:
//   min(rem, 2^w - rem) / (2^w 10^m) < 1 / 2^(nbits+1)
pub open spec fn fclose(x: int, m: int, w: int, nbits: int) -> bool {
    2 * imin(frem(x, m, w), p2(w) - frem(x, m, w)) * p2(nbits) < ipow(10, m) * p2(w)
}
pub proof fn lemma_fdig_intro(x: int, m: int, w: int, d: int, r: int)
    requires w >= 0, 0 <= r < p2(w), x * ipow(10, m) == d * p2(w) + r
    ensures fdig(x, m, w) == d, frem(x, m, w) == r
{
    lemma_p2_pos(w);
    lemma_fundamental_div_mod_converse(x * ipow(10, m), p2(w), d, r);
}
// the value lives in the upper half-word: same digits, same order against one half, same closeness
pub proof fn lemma_frac_half(x: int, xh: int, m: int, hw: int, nbits: int)
    requires hw >= 1, x == xh * p2(hw), xh >= 0, m >= 0, nbits >= 0
    ensures fdig(x, m, 2 * hw) == fdig(xh, m, hw), frem(x, m, 2 * hw) == frem(xh, m, hw) * p2(hw),
            ordi(frem(x, m, 2 * hw), p2(2 * hw - 1)) == ordi(frem(xh, m, hw), p2(hw - 1)),
            fclose(x, m, 2 * hw, nbits) == fclose(xh, m, hw, nbits)
{
    let t = ipow(10, m); let ph = p2(hw); let pw = p2(2 * hw);
    lemma_p2_pos(hw); lemma_p2_add(hw, hw); lemma_p2_add(hw - 1, hw); lemma_p2_pos(hw - 1); lemma_p2_pos(nbits); lemma_ipow_pos(10, m);
    assert(pw == ph * ph);
    let n = xh * t;
    lemma_fundamental_div_mod(n, ph); lemma_mod_bound(n, ph);
    let q = n / ph; let r = n % ph;
    assert(x * t == q * pw + r * ph) by (nonlinear_arith) requires x == xh * ph, n == xh * t, n == ph * q + r, pw == ph * ph;
    assert(0 <= r * ph < pw) by (nonlinear_arith) requires 0 <= r < ph, pw == ph * ph, ph > 0;
    lemma_fdig_intro(x, m, 2 * hw, q, r * ph);
    let hh = p2(hw - 1);
    assert(p2(2 * hw - 1) == hh * ph);
    assert((r * ph < hh * ph) == (r < hh) && (r * ph == hh * ph) == (r == hh)) by (nonlinear_arith) requires ph > 0;
    let pn = p2(nbits);
    let a = imin(r, ph - r);
    assert(imin(r * ph, pw - r * ph) == a * ph) by (nonlinear_arith) requires pw == ph * ph, ph > 0, a == imin(r, ph - r);
    assert((2 * (a * ph) * pn < t * pw) == (2 * a * pn < t * ph)) by (nonlinear_arith) requires pw == ph * ph, ph > 0;
}
// the delegated fraction: a multiple of 2^(w-nbits) with nbits < w/2 is a multiple of 2^(w/2), and its upper half a multiple of 2^(w/2-nbits)
pub proof fn lemma_frac_upper(x: int, hw: int, nbits: int)
    requires hw >= 1, 0 <= nbits < hw, x >= 0, x % p2(2 * hw - nbits) == 0
    ensures x == (x / p2(hw)) * p2(hw), (x / p2(hw)) % p2(hw - nbits) == 0, x / p2(hw) >= 0
{
    let ph = p2(hw); let pd = p2(hw - nbits); let pb = p2(2 * hw - nbits);
    lemma_p2_pos(hw); lemma_p2_pos(hw - nbits); lemma_p2_add(hw, hw - nbits); lemma_p2_pos(2 * hw - nbits);
    assert(pb == ph * pd);
    lemma_fundamental_div_mod(x, pb);
    let j = x / pb;
    assert(x == (j * pd) * ph) by (nonlinear_arith) requires x == pb * j, pb == ph * pd;
    lemma_fundamental_div_mod_converse(x, ph, j * pd, 0);
    lemma_fundamental_div_mod_converse(j * pd, pd, j, 0);
    assert(j >= 0) by (nonlinear_arith) requires x == pb * j, x >= 0, pb > 0;
    assert(j * pd >= 0) by (nonlinear_arith) requires j >= 0, pd > 0;
}
// the trim test of write_frac_dec: with the exact scaled half-unit T (2 T 2^nbits = 10^m 2^w) in `tie`, `rem < tie || (2^w - rem) mod 2^w < tie` gives closeness
pub proof fn lemma_trim_close(x: int, m: int, w: int, nbits: int, rem: int, tie: int, wneg: int)
    requires w >= 1, nbits >= 0, m >= 0, 0 <= rem < p2(w), frem(x, m, w) == rem, 2 * tie * p2(nbits) == ipow(10, m) * p2(w),
             wneg == (if rem == 0 { 0 } else { p2(w) - rem }), rem < tie || wneg < tie
    ensures fclose(x, m, w, nbits)
{
    lemma_p2_pos(w); lemma_p2_pos(nbits); lemma_ipow_pos(10, m);
    let pn = p2(nbits); let a = imin(rem, p2(w) - rem);
    assert(tie > 0) by (nonlinear_arith) requires 2 * tie * pn == ipow(10, m) * p2(w), pn > 0, ipow(10, m) >= 1, p2(w) >= 1;
    assert(a < tie);
    assert(2 * a * pn < 2 * tie * pn) by (nonlinear_arith) requires a < tie, pn > 0;
}
// ---- radix 2^g digits ----
pub open spec fn rfdig(x: int, m: int, g: int, w: int) -> int { (x * ipow(p2(g), m)) / p2(w) }
pub open spec fn rfrem(x: int, m: int, g: int, w: int) -> int { (x * ipow(p2(g), m)) % p2(w) }
// the fraction as the radix-2^g writer wants it: exactly `nbits` significant bits at the top of the word (bit w - nbits is the lowest set bit)
pub open spec fn top_bits(x: int, nbits: int, w: int) -> bool {
    if nbits == 0 { x == 0 } else { x % p2(w - nbits) == 0 && (x / p2(w - nbits)) % 2 == 1 }
}
pub proof fn lemma_rfdig_intro(x: int, m: int, g: int, w: int, d: int, r: int)
    requires w >= 0, 0 <= r < p2(w), x * ipow(p2(g), m) == d * p2(w) + r
    ensures rfdig(x, m, g, w) == d, rfrem(x, m, g, w) == r
{
    lemma_p2_pos(w);
    lemma_fundamental_div_mod_converse(x * ipow(p2(g), m), p2(w), d, r);
}
// an odd multiple of 2^e is not a multiple of 2^w for e < w: after k digits the remainder of a fraction with nbits significant bits is non-zero while g k < nbits
pub proof fn lemma_top_bits_nonzero(x: int, nbits: int, w: int, g: int, k: int)
    requires 1 <= g, 0 <= k, 0 < nbits <= w, top_bits(x, nbits, w), g * k < nbits, x >= 0
    ensures rfrem(x, k, g, w) != 0
{
    let e = w - nbits; let pe = p2(e); let o = x / pe;
    lemma_p2_pos(e); lemma_p2_pos(w); lemma_p2_pos(g * k); lemma_pow_radix_any(g, k);
    lemma_fundamental_div_mod(x, pe);
    let t = p2(g * k);
    assert(ipow(p2(g), k) == t);
    assert(g * k >= 0) by (nonlinear_arith) requires g >= 1, k >= 0;
    lemma_p2_add(e, g * k); lemma_p2_pos(e + g * k);
    let s = e + g * k;   // < w
    lemma_p2_add(s, w - s); lemma_p2_pos(w - s); lemma_p2_step(w - s);
    let ps = p2(s);
    assert(x * t == o * ps) by (nonlinear_arith) requires x == pe * o, ps == pe * t;
    if (x * t) % p2(w) == 0 {
        lemma_fundamental_div_mod(x * t, p2(w));
        let j = (x * t) / p2(w);
        // o * ps == j * ps * 2^(w-s)  ->  o == j * 2 * 2^(w-s-1)
        let q = p2(w - s - 1);
        assert(o == 2 * (j * q)) by (nonlinear_arith) requires o * ps == p2(w) * j, p2(w) == ps * p2(w - s), p2(w - s) == 2 * q, ps > 0;
        assert(o % 2 == 0) by { lemma_fundamental_div_mod_converse(o, 2, j * q, 0); }
    }
}
pub proof fn lemma_pow_radix_any(g: int, n: int)
    requires 1 <= g, n >= 0
    ensures ipow(p2(g), n) == p2(g * n)
    decreases n
{
    if n == 0 { assert(g * 0 == 0); lemma2_to64(); assert(p2(0) == 1); }
    else {
        lemma_pow_radix_any(g, n - 1);
        assert(g * n == g * (n - 1) + g) by (nonlinear_arith);
        assert(g * (n - 1) >= 0) by (nonlinear_arith) requires g >= 1, n >= 1;
        lemma_p2_add(g * (n - 1), g);
        assert(p2(g) * p2(g * (n - 1)) == p2(g * (n - 1)) * p2(g)) by (nonlinear_arith);
    }
}
// the upper half-word carries the same radix-2^g expansion
pub proof fn lemma_rfrac_half(x: int, xh: int, m: int, g: int, hw: int)
    requires hw >= 1, x == xh * p2(hw), xh >= 0, m >= 0, g >= 1
    ensures rfdig(x, m, g, 2 * hw) == rfdig(xh, m, g, hw), rfrem(x, m, g, 2 * hw) == rfrem(xh, m, g, hw) * p2(hw),
            ordi(rfrem(x, m, g, 2 * hw), p2(2 * hw - 1)) == ordi(rfrem(xh, m, g, hw), p2(hw - 1))
{
    let t = ipow(p2(g), m); let ph = p2(hw); let pw = p2(2 * hw);
    lemma_p2_pos(hw); lemma_p2_add(hw, hw); lemma_p2_add(hw - 1, hw); lemma_p2_pos(hw - 1);
    let n = xh * t;
    lemma_fundamental_div_mod(n, ph); lemma_mod_bound(n, ph);
    let q = n / ph; let r = n % ph;
    assert(x * t == q * pw + r * ph) by (nonlinear_arith) requires x == xh * ph, n == xh * t, n == ph * q + r, pw == ph * ph;
    assert(0 <= r * ph < pw) by (nonlinear_arith) requires 0 <= r < ph, pw == ph * ph, ph > 0;
    lemma_rfdig_intro(x, m, g, 2 * hw, q, r * ph);
    let hh = p2(hw - 1);
    assert(p2(2 * hw - 1) == hh * ph);
    assert((r * ph < hh * ph) == (r < hh) && (r * ph == hh * ph) == (r == hh)) by (nonlinear_arith) requires ph > 0;
}
// top_bits of the upper half
pub proof fn lemma_top_bits_upper(x: int, hw: int, nbits: int)
    requires hw >= 1, 0 <= nbits < hw, x >= 0, top_bits(x, nbits, 2 * hw)
    ensures x == (x / p2(hw)) * p2(hw), top_bits(x / p2(hw), nbits, hw), x / p2(hw) >= 0
{
    lemma_p2_pos(hw);
    if nbits == 0 { lemma_fundamental_div_mod_converse(0, p2(hw), 0, 0); lemma_p2_pos(hw - nbits); lemma_small_mod(0, p2(hw - nbits) as nat); }
    else {
        lemma_frac_upper(x, hw, nbits);
        let ph = p2(hw); let pd = p2(hw - nbits); let pb = p2(2 * hw - nbits); let xh = x / ph;
        lemma_p2_pos(hw - nbits); lemma_p2_add(hw, hw - nbits); lemma_p2_pos(2 * hw - nbits);
        // x / pb == xh / pd
        lemma_fundamental_div_mod(xh, pd);
        let j = xh / pd;
        assert(x == pb * j) by (nonlinear_arith) requires x == xh * ph, xh == pd * j, pb == ph * pd;
        lemma_fundamental_div_mod_converse(x, pb, j, 0);
    }
}
// an integer with exactly nbits significant bits needs ceil(nbits / g) radix-2^g digits, and every prefix of fewer digits leaves a non-zero rest
pub proof fn lemma_int_digits_radix(x: int, nbits: int, g: int, n: int)
    requires 1 <= g, 0 <= nbits, n == (nbits + g - 1) / g, 0 <= x < p2(nbits), nbits > 0 ==> x >= p2(nbits - 1)
    ensures x < ipow(p2(g), n), n >= 0, forall|j: int| 0 <= j < n ==> x >= #[trigger] ipow(p2(g), j)
{
    let a = nbits + g - 1;
    lemma_fundamental_div_mod(a, g); lemma_mod_bound(a, g);
    assert(n >= 0 && g * n >= nbits && g * n <= nbits + g - 1) by (nonlinear_arith) requires a == g * n + a % g, 0 <= a % g < g, a == nbits + g - 1, g >= 1, nbits >= 0;
    lemma_pow_radix_any(g, n);
    lemma_p2_mono(nbits, g * n);
    assert forall|j: int| 0 <= j < n implies x >= #[trigger] ipow(p2(g), j) by {
        lemma_pow_radix_any(g, j);
        assert(g * j <= nbits - 1 && g * j >= 0) by (nonlinear_arith) requires g * n <= nbits + g - 1, 0 <= j <= n - 1, g >= 1;
        lemma_p2_mono(g * j, nbits - 1);
    }
}
pub proof fn lemma_radix_base()
    ensures p2(1) == 2, p2(3) == 8, p2(4) == 16, p2(0) == 1
{ lemma2_to64(); }
// ---- ceil(i log10 2) as display.rs computes it, against powers of two (checked by computation for every i <= 128) ----
pub open spec fn clog(i: int) -> int { (i * 0x4D10_4D43 + 0xFFFF_FFFF) / 0x1_0000_0000 }
pub open spec fn clog_cond(i: int) -> bool {
    &&& ipow(2, i) <= ipow(10, clog(i))
    &&& (i >= 1 ==> ipow(2, i) < ipow(10, clog(i)))
    &&& (clog(i) >= 1 ==> ipow(10, clog(i) - 1) < ipow(2, i))
    &&& 0 <= clog(i) <= i
}
pub open spec fn clog_ok(i: int) -> bool decreases i { if i <= 0 { clog_cond(0) } else { clog_cond(i) && clog_ok(i - 1) } }
pub proof fn lemma_clog_down(i: int, n: int)
    requires 0 <= i <= n, clog_ok(n)
    ensures clog_cond(i)
    decreases n - i
{ if i < n { lemma_clog_down(i, n - 1); } }
// 10^(clog(i)-1) < 2^i <= 10^clog(i)  (strict on the right for i >= 1)
pub proof fn lemma_clog(i: int)
    requires 0 <= i <= 128
    ensures p2(i) <= ipow(10, clog(i)), i >= 1 ==> p2(i) < ipow(10, clog(i)), clog(i) >= 1 ==> ipow(10, clog(i) - 1) < p2(i), 0 <= clog(i) <= i
{
    assert(clog_ok(128)) by (compute_only);
    lemma_clog_down(i, 128);
    lemma_two_pow(i);
}
// all digits shown (10^m > 2^nbits, or nothing to show): the rounded expansion is within half a unit of the last fractional bit
pub proof fn lemma_fclose_full(x: int, m: int, w: int, nbits: int)
    requires w >= 1, nbits >= 0, m >= 0, p2(nbits) < ipow(10, m) || frem(x, m, w) == 0
    ensures fclose(x, m, w, nbits)
{
    lemma_p2_pos(w); lemma_p2_pos(nbits); lemma_ipow_pos(10, m); lemma_p2_step(w); lemma_p2_pos(w - 1);
    let r = frem(x, m, w); let pw = p2(w); let pn = p2(nbits); let t = ipow(10, m);
    lemma_mod_bound(x * t, pw);
    let a = imin(r, pw - r);
    if r == 0 { assert(2 * 0 * pn < t * pw) by (nonlinear_arith) requires t >= 1, pw >= 1; }
    else {
        assert(2 * a <= pw);
        assert(2 * a * pn < t * pw) by (nonlinear_arith) requires 2 * a <= pw, pn < t, pw >= 1, pn >= 1, a >= 0;
    }
}
// ---- the digit buffer as Buffer::finish / round_and_trim see it ----
// the digit string of the buffer region s = data[0 .. len) without the radix point at index 1 + id: 1 + id leading digits (spare slot first), then fd fraction digits
pub open spec fn strip(s: Seq<u8>, id: int, fd: int) -> Seq<u8> { Seq::new((1 + id + fd) as nat, |i: int| if i <= id { s[i] } else { s[i + 1] }) }
// all digits of the buffer (spare leading slot, integer digits, fraction digits) as one number scaled by r^frac_digits
pub open spec fn bdigits(b: Buffer) -> Seq<u8> { strip(b.data@, b.int_digits as int, b.frac_digits as int) }
pub open spec fn rbits(r: Radix) -> u32 { match r { Radix::Bin => 1, Radix::Oct => 3, Radix::LowHex => 4, Radix::UpHex => 4, Radix::Dec => 4 } }
pub open spec fn rmax(r: Radix) -> u8 { match r { Radix::Bin => 1, Radix::Oct => 7, Radix::LowHex => 15, Radix::UpHex => 15, Radix::Dec => 9 } }
pub open spec fn enc_digit(d: u8, upper: bool) -> u8 { if d < 10 { (d + 48) as u8 } else if d < 16 { (if upper { d + 55 } else { d + 87 }) as u8 } else { d } }
// what Buffer::finish expects of the buffer: digits below the radix everywhere, the spare leading slot still zero, the radix point in place
pub open spec fn finish_req(b: Buffer, max: u8) -> bool {
    buf_ok(b) && 1 <= max <= 15 && rdigits(bdigits(b), max as int + 1) && b.data@[0] == 0 && b.data@[1 + b.int_digits as int] == 46
}
