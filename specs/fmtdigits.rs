// ---- specs/fmtdigits.rs: the value of a run of raw digits in the formatter's buffer (C09) ----
// digits are raw values (0 ..= radix-1), most significant first: rv(s, r) = sum of s[i] * r^(len-1-i)
pub open spec fn rv(s: Seq<u8>, r: int) -> int
    decreases s.len()
{
    if s.len() == 0 { 0 } else { rv(s.drop_last(), r) * r + s.last() as int }
}
pub open spec fn rdigits(s: Seq<u8>, r: int) -> bool { forall|i: int| 0 <= i < s.len() ==> (#[trigger] s[i] as int) < r }
pub proof fn lemma_rv_push_back(s: Seq<u8>, k: int, r: int)
    requires 0 <= k < s.len()
    ensures rv(s.take(k + 1), r) == rv(s.take(k), r) * r + s[k] as int
{
    assert(s.take(k + 1).drop_last() =~= s.take(k));
    assert(s.take(k + 1).last() == s[k]);
}
pub proof fn lemma_rv_split(s: Seq<u8>, k: int, r: int)
    requires 0 <= k <= s.len()
    ensures rv(s, r) == rv(s.subrange(0, k), r) * ipow(r, s.len() as int - k) + rv(s.subrange(k, s.len() as int), r)
    decreases s.len() - k
{
    let n = s.len() as int;
    if k == n {
        assert(s.subrange(0, n) =~= s); assert(s.subrange(n, n).len() == 0);
    } else {
        let t = s.drop_last();
        lemma_rv_split(t, k, r);
        assert(t.subrange(0, k) =~= s.subrange(0, k));
        assert(t.subrange(k, n - 1) =~= s.subrange(k, n).drop_last());
        assert(s.subrange(k, n).last() == s.last());
        let (a, b, p) = (rv(s.subrange(0, k), r), rv(t.subrange(k, n - 1), r), ipow(r, n - 1 - k));
        assert(ipow(r, n - k) == r * p);
        assert((a * p + b) * r == a * (r * p) + b * r) by (nonlinear_arith);
    }
}
// one more digit in front: rv(s[k..n]) = s[k] * r^(n-k-1) + rv(s[k+1..n])
pub proof fn lemma_rv_push_front(s: Seq<u8>, k: int, r: int)
    requires 0 <= k < s.len()
    ensures rv(s.subrange(k, s.len() as int), r) == s[k] as int * ipow(r, s.len() as int - k - 1) + rv(s.subrange(k + 1, s.len() as int), r)
{
    let n = s.len() as int;
    let u = s.subrange(k, n);
    lemma_rv_split(u, 1, r);
    assert(u.subrange(1, n - k) =~= s.subrange(k + 1, n));
    let h = u.subrange(0, 1);
    assert(h.len() == 1);
    assert(h.drop_last().len() == 0);
    assert(h.last() == s[k]);
    assert(rv(h.drop_last(), r) == 0);
    assert(rv(h, r) == rv(h.drop_last(), r) * r + h.last() as int);
    assert(rv(h, r) == s[k] as int) by (nonlinear_arith) requires rv(h, r) == rv(h.drop_last(), r) * r + h.last() as int, rv(h.drop_last(), r) == 0, h.last() == s[k];
    assert(u.len() as int - 1 == n - k - 1);
    assert(rv(u, r) == rv(h, r) * ipow(r, n - k - 1) + rv(u.subrange(1, n - k), r));
}
pub proof fn lemma_rv_bounds(s: Seq<u8>, r: int)
    requires rdigits(s, r), r >= 2
    ensures 0 <= rv(s, r) < ipow(r, s.len() as int)
    decreases s.len()
{
    if s.len() > 0 {
        let t = s.drop_last();
        assert(rdigits(t, r)) by { assert forall|i: int| 0 <= i < t.len() implies (#[trigger] t[i] as int) < r by { assert(t[i] == s[i]); } }
        lemma_rv_bounds(t, r);
        let d = s.last() as int;
        assert(0 <= d <= r - 1);
        let (v, p) = (rv(t, r), ipow(r, t.len() as int));
        assert(v * r + d < r * p) by (nonlinear_arith) requires 0 <= v, v < p, 0 <= d <= r - 1, r >= 2;
        assert(v * r + d >= 0) by (nonlinear_arith) requires 0 <= v, d >= 0, r >= 2;
        assert(ipow(r, s.len() as int) == r * p);
    }
}
pub proof fn lemma_rv_ext(s: Seq<u8>, t: Seq<u8>, r: int)
    requires s =~= t
    ensures rv(s, r) == rv(t, r)
{}
// ---- the formatter's buffer: data[0] spare leading digit, data[1 .. 1+int_digits] integer digits, '.', then frac_digits fraction digits ----
pub open spec fn buf_ok(b: Buffer) -> bool { b.int_digits + b.frac_digits <= 128 }
pub open spec fn int_seq(b: Buffer) -> Seq<u8> { b.data@.subrange(1, 1 + b.int_digits as int) }
pub open spec fn frac_seq(b: Buffer) -> Seq<u8> { b.data@.subrange(2 + b.int_digits as int, 2 + b.int_digits as int + b.frac_digits as int) }
// everything outside data[lo .. hi) is unchanged
pub open spec fn same_outside(a: Buffer, b: Buffer, lo: int, hi: int) -> bool {
    a.int_digits == b.int_digits && a.frac_digits == b.frac_digits && forall|i: int| 0 <= i < 130 && !(lo <= i < hi) ==> a.data@[i] == b.data@[i]
}
