// ---- specs/decfrac.rs: the arithmetic behind dec_str_frac_to_bin (C08) ----
// D = value of all n fraction digits, so the literal's fraction is L = D / 10^n and its scaled value X = D * 2^nb / 10^n.
// scaling numerator and denominator leaves the rounded quotient unchanged
pub proof fn lemma_rne_scale(a: int, b: int, c: int)
    requires a >= 0, b > 0, c > 0
    ensures rne_div(a * c, b * c) == rne_div(a, b)
{
    lemma_div_multiples_vanish_quotient(c, a, b);
    lemma_truncate_middle(a, c, b);
    assert(a * c == c * a && b * c == c * b) by (nonlinear_arith);
    let r = a % b; lemma_mod_bound(a, b);
    assert((2 * (c * r) > c * b) == (2 * r > b) && (2 * (c * r) == c * b) == (2 * r == b)) by (nonlinear_arith) requires c > 0;
}
// X in [fl, fl + 3/2): the rounded value is fl or fl + 1, decided by the comparison of X with fl + 1/2 (ties to even)
pub proof fn lemma_rne_cases(nn: int, mn: int, fl: int)
    requires mn > 0, fl >= 0, fl * mn <= nn, 2 * nn < (2 * fl + 3) * mn
    ensures rne_div(nn, mn) == (if 2 * nn < (2 * fl + 1) * mn { fl } else if 2 * nn > (2 * fl + 1) * mn { fl + 1 } else if fl % 2 == 0 { fl } else { fl + 1 })
{
    assert((2 * fl + 1) * mn == 2 * (fl * mn) + mn && (2 * fl + 3) * mn == 2 * (fl * mn) + 3 * mn && (fl + 1) * mn == fl * mn + mn) by (nonlinear_arith);
    if nn < (fl + 1) * mn {
        let r = nn - fl * mn;
        assert(nn == mn * fl + r) by (nonlinear_arith) requires r == nn - fl * mn;
        lemma_fundamental_div_mod_converse(nn, mn, fl, r);
    } else {
        let r = nn - (fl + 1) * mn;
        assert(nn == mn * (fl + 1) + r) by (nonlinear_arith) requires r == nn - (fl + 1) * mn;
        lemma_fundamental_div_mod_converse(nn, mn, fl + 1, r);
        assert(2 * r < mn);
    }
}
// from the first DEC digits (val) and the floor computed on them: fl <= X < fl + 3/2
pub proof fn lemma_frac_bounds(dd: int, val: int, e: int, nb: int, m: int, fl: int)
    requires e >= 1, m > 0, 0 <= val < m, nb >= 0, val * e <= dd < (val + 1) * e, p2(nb + 1) < m,
             ({ let n0 = val * p2(nb); fl == (if n0 % m == 0 && (n0 / m) % 2 == 1 { n0 / m - 1 } else { n0 / m }) })
    ensures 0 <= fl < p2(nb), fl * (m * e) <= dd * p2(nb), 2 * (dd * p2(nb)) < (2 * fl + 3) * (m * e)
{
    let pn = p2(nb); lemma_p2_pos(nb); lemma_p2_step(nb + 1);
    let n0 = val * pn; let q = n0 / m; let r = n0 % m;
    lemma_fundamental_div_mod(n0, m); lemma_mod_bound(n0, m);
    assert(n0 >= 0) by (nonlinear_arith) requires n0 == val * pn, val >= 0, pn > 0;
    assert(q >= 0) by (nonlinear_arith) requires n0 == m * q + r, r < m, n0 >= 0, m > 0;
    assert(q < pn) by (nonlinear_arith) requires n0 == m * q + r, r >= 0, n0 == val * pn, val < m, pn > 0, m > 0;
    if q % 2 == 1 { assert(q >= 1); }
    // dd * pn >= n0 * e >= q * m * e >= fl * m * e
    assert(dd * pn >= n0 * e) by (nonlinear_arith) requires dd >= val * e, n0 == val * pn, pn > 0;
    assert(n0 * e >= (q * m) * e) by (nonlinear_arith) requires n0 == m * q + r, r >= 0, e >= 1;
    assert((q * m) * e == q * (m * e) && (fl * m) * e == fl * (m * e)) by (nonlinear_arith);
    assert(q * (m * e) >= fl * (m * e)) by (nonlinear_arith) requires q >= fl, m > 0, e >= 1;
    // 2 dd pn < (2 n0 + 2 pn) e < (2 n0 + m) e <= (2 fl + 3) m e
    assert(2 * (dd * pn) < (2 * n0 + 2 * pn) * e) by (nonlinear_arith) requires dd < (val + 1) * e, n0 == val * pn, pn > 0, e >= 1;
    assert((2 * n0 + 2 * pn) * e < (2 * n0 + m) * e) by (nonlinear_arith) requires 2 * pn < m, e >= 1;
    assert(2 * n0 + m <= (2 * fl + 3) * m) by (nonlinear_arith) requires n0 == m * q + r, 0 <= r < m, (fl == q) || (fl == q - 1 && r == 0), m > 0;
    assert((2 * n0 + m) * e <= ((2 * fl + 3) * m) * e) by (nonlinear_arith) requires 2 * n0 + m <= (2 * fl + 3) * m, e >= 1;
    assert(((2 * fl + 3) * m) * e == (2 * fl + 3) * (m * e)) by (nonlinear_arith);
}
// one compared digit.  With w1 = 2^(W+1):  inv: pk * w1 + bk == tk * b0 (tk = 10^k);  step: t * w1 + b2 == 10 * bk, 0 <= b2 < w1;
// split: dd == (10 pk + d) * ee + rr, 0 <= rr < ee  (ee = 10^(n-k-1), tn = 10^n = tk * 10 * ee)
pub proof fn lemma_digit_cmp(dd: int, pk: int, d: int, t: int, ee: int, rr: int, w1: int, bk: int, b2: int, b0: int, tk: int, tn: int)
    requires w1 > 0, ee >= 1, tk >= 1, tn == tk * 10 * ee, 0 <= rr < ee, dd == (10 * pk + d) * ee + rr,
             pk * w1 + bk == tk * b0, t * w1 + b2 == 10 * bk, 0 <= b2 < w1
    ensures d < t ==> dd * w1 < tn * b0, d > t ==> dd * w1 > tn * b0, (10 * pk + t) * w1 + b2 == (tk * 10) * b0
{
    assert((10 * pk + t) * w1 + b2 == (tk * 10) * b0) by (nonlinear_arith) requires pk * w1 + bk == tk * b0, t * w1 + b2 == 10 * bk;
    let c = (10 * pk + t) * w1;
    assert(tn * b0 == ((tk * 10) * b0) * ee) by (nonlinear_arith) requires tn == tk * 10 * ee;
    if d < t {
        // dd < (10 pk + d + 1) ee <= (10 pk + t) ee ; (10 pk + t) w1 <= (tk 10) b0
        assert(dd * w1 < ((10 * pk + t) * ee) * w1) by (nonlinear_arith) requires dd == (10 * pk + d) * ee + rr, rr < ee, d + 1 <= t, ee >= 1, w1 > 0;
        assert(((10 * pk + t) * ee) * w1 == c * ee) by (nonlinear_arith) requires c == (10 * pk + t) * w1;
        assert(c * ee <= ((tk * 10) * b0) * ee) by (nonlinear_arith) requires c + b2 == (tk * 10) * b0, b2 >= 0, ee >= 1;
    }
    if d > t {
        assert(dd * w1 >= ((10 * pk + t + 1) * ee) * w1) by (nonlinear_arith) requires dd == (10 * pk + d) * ee + rr, rr >= 0, d >= t + 1, ee >= 1, w1 > 0;
        assert(((10 * pk + t + 1) * ee) * w1 == (c + w1) * ee) by (nonlinear_arith) requires c == (10 * pk + t) * w1;
        assert((c + w1) * ee > ((tk * 10) * b0) * ee) by (nonlinear_arith) requires c + b2 == (tk * 10) * b0, b2 < w1, ee >= 1;
    }
}
// the tie point's expansion ended after k digits (bk == 0) but the literal goes on to a non-zero digit: it is larger
pub proof fn lemma_digit_exhausted(dd: int, pk: int, ee: int, rr: int, w1: int, b0: int, tk: int, tn: int)
    requires w1 > 0, ee >= 1, tk >= 1, tn == tk * ee, dd == pk * ee + rr, rr >= 1, pk * w1 == tk * b0
    ensures dd * w1 > tn * b0
{
    assert(tn * b0 == (tk * b0) * ee) by (nonlinear_arith) requires tn == tk * ee;
    assert(dd * w1 == (pk * w1) * ee + rr * w1) by (nonlinear_arith) requires dd == pk * ee + rr;
    assert(rr * w1 >= 1) by (nonlinear_arith) requires rr >= 1, w1 >= 1;
}
// from the doubled-boundary comparison to the comparison of X with fl + 1/2:  w1 = 2^(W+1), b0 = t2 * 2^(W-nb), t2 = 2 fl + 1
pub proof fn lemma_cmp_transfer(dd: int, tn: int, w: int, nb: int, t2: int)
    requires 0 <= nb <= w, tn >= 1
    ensures ({ let lhs = dd * p2(w + 1); let rhs = tn * (t2 * p2(w - nb)); let nn = dd * p2(nb);
               (lhs < rhs) == (2 * nn < t2 * tn) && (lhs > rhs) == (2 * nn > t2 * tn) && (lhs == rhs) == (2 * nn == t2 * tn) })
{
    let c = p2(w - nb); lemma_p2_pos(w - nb); lemma_p2_add(nb, w - nb); lemma_p2_step(w + 1);
    let nn = dd * p2(nb);
    assert(dd * p2(w + 1) == (2 * nn) * c) by (nonlinear_arith) requires p2(w + 1) == 2 * p2(w), p2(w) == p2(nb) * c, nn == dd * p2(nb);
    assert(tn * (t2 * c) == (t2 * tn) * c) by (nonlinear_arith);
    let (x, y) = (2 * nn, t2 * tn);
    assert((x * c < y * c) == (x < y) && (x * c > y * c) == (x > y) && (x * c == y * c) == (x == y)) by (nonlinear_arith) requires c > 0;
}
// a quotient rounded to nearest never exceeds p when the numerator is below mn * p
// the decision: with lhs = D * 2^(w+1) and rhs = 10^n * ((2 fl + 1) * 2^(w - nb)) the rounded fraction is fl, fl + 1, or the even one
pub proof fn lemma_frac_decide(dd: int, tn: int, w: int, nb: int, fl: int)
    requires 0 <= nb <= w, tn >= 1, fl >= 0, fl * tn <= dd * p2(nb), 2 * (dd * p2(nb)) < (2 * fl + 3) * tn
    ensures ({ let lhs = dd * p2(w + 1); let rhs = tn * ((2 * fl + 1) * p2(w - nb));
               rne_div(dd * p2(nb), tn) == (if lhs < rhs { fl } else if lhs > rhs { fl + 1 } else if fl % 2 == 0 { fl } else { fl + 1 }) })
{
    lemma_cmp_transfer(dd, tn, w, nb, 2 * fl + 1);
    lemma_rne_cases(dd * p2(nb), tn, fl);
}
// a digit string that does not end in '0' has a positive value
pub proof fn lemma_dval_last_pos(u: Seq<u8>)
    requires dec_digits(u), u.len() >= 1, u.last() != 48
    ensures dval(u, 10) >= 1
{
    let t = u.drop_last();
    assert(dec_digits(t)) by { assert forall|i: int| 0 <= i < t.len() implies 48 <= #[trigger] t[i] < 48 + 10 by { assert(t[i] == u[i]); } }
    lemma_dval_bounds(t);
    assert(dval(t, 10) * 10 >= 0);
}
// the decimal fraction 0.d1 d2 ... dn scaled to nb binary places and rounded to nearest, ties to even
pub open spec fn frac_rne(s: Seq<u8>, nb: int) -> int { rne_div(dval(s, 10) * p2(nb), ipow(10, s.len() as int)) }
pub proof fn lemma_frac_rne_facts(s: Seq<u8>, nb: int)
    requires dec_digits(s), nb >= 0
    ensures 0 <= frac_rne(s, nb) <= p2(nb), s.len() == 0 ==> frac_rne(s, nb) == 0,
            (s.len() == 1 && s[0] == 53 && nb == 0) ==> frac_rne(s, nb) == 0
{
    let (dd, tn, pn) = (dval(s, 10), ipow(10, s.len() as int), p2(nb));
    lemma_dval_bounds(s); lemma_ipow_pos(10, s.len() as int); lemma_p2_pos(nb);
    assert(dd * pn < tn * pn) by (nonlinear_arith) requires 0 <= dd < tn, pn > 0;
    assert(dd * pn >= 0) by (nonlinear_arith) requires 0 <= dd, pn > 0;
    lemma_rne_upper(dd * pn, tn, pn);
    if s.len() == 0 { assert(dd == 0); assert(0 * pn == 0); assert(tn == 1); }
    if s.len() == 1 && s[0] == 53 && nb == 0 {
        assert(s.drop_last().len() == 0); assert(dval(s.drop_last(), 10) == 0); assert(dd == 0 * 10 + 5);
        lemma2_to64(); assert(pn == 1); assert(tn == 10 * ipow(10, 0)); assert(5 * 1 == 5);
        lemma_fundamental_div_mod_converse(5, 10, 0, 5);
    }
}
