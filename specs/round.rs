// ---- specs/round.rs: the five roundings of b / 2^f to an integer, scaled back by 2^f (C06) ----
pub open spec fn floor_(b: int, f: int) -> int { (b / p2(f)) * p2(f) }
pub open spec fn ceil_(b: int, f: int) -> int { -floor_(-b, f) }
pub open spec fn rtz_(b: int, f: int) -> int { if b >= 0 { floor_(b, f) } else { ceil_(b, f) } }
// ties away from zero
pub open spec fn round_(b: int, f: int) -> int {
    let fl = floor_(b, f); let r = b - fl; let one = p2(f);
    if 2 * r > one || (2 * r == one && b >= 0) { fl + one } else { fl }
}
// ties to even
pub open spec fn rte_(b: int, f: int) -> int {
    let fl = floor_(b, f); let r = b - fl; let one = p2(f);
    if 2 * r > one || (2 * r == one && (b / one) % 2 != 0) { fl + one } else { fl }
}

pub proof fn lemma_wrap_mult(s: bool, w: int, k: int)
    requires w >= 1
    ensures wrap(s, w, k * p2(w)) == 0
{
    lemma_p2_pos(w); lemma_p2_pos(w - 1);
    lemma_mod_multiples_basic(k, p2(w));
}

// parameter-only facts about floor_/ceil_ of a w-bit pattern b with f fractional bits
pub proof fn lemma_round_facts(s: bool, w: int, b: int, f: int)
    requires w >= 2, fits(s, w, b), 0 <= f <= w
    ensures ({
        let fl = floor_(b, f); let ce = ceil_(b, f); let one = p2(f); let r = b - fl;
        &&& one > 0 &&& fl <= b < fl + one &&& 0 <= r < one &&& fl == (b / one) * one
        &&& (r == 0 ==> ce == fl) &&& (r != 0 ==> ce == fl + one)
        &&& (f < w ==> fits(s, w, fl) && wrap(s, w, fl) == fl)
        &&& (f == w ==> (b / one == (if b < 0 { -1int } else { 0int }) && fl == (if b < 0 { -p2(w) } else { 0 }) && wrap(s, w, fl) == 0 && (!fits(s, w, fl) <==> b < 0)
                         && wrap(s, w, fl + one) == 0 && (!fits(s, w, fl + one) <==> b >= 0)))
        &&& (s && f == w - 1 ==> wrap(s, w, one) == -one && !fits(s, w, one))
        &&& ((s && f < w - 1) || (!s && f < w) ==> wrap(s, w, one) == one && fits(s, w, one))
        &&& (b >= 0 ==> fl >= 0)
        &&& (b < 0 ==> fl + one <= 0)
    })
{
    let one = p2(f);
    lemma_p2_pos(f); lemma_p2_pos(w); lemma_p2_pos(w - 1); lemma_p2_step(w);
    let q = b / one; let r = b % one;
    lemma_fundamental_div_mod(b, one); lemma_mod_bound(b, one);
    assert(b == one * q + r && 0 <= r < one);
    let fl = floor_(b, f);
    assert(fl == q * one);
    assert(one * q == q * one) by (nonlinear_arith);
    assert(fl + one == (q + 1) * one) by (nonlinear_arith) requires fl == q * one;
    assert(b >= 0 ==> q >= 0) by (nonlinear_arith) requires b == one * q + r, 0 <= r < one;
    assert(b >= 0 ==> fl >= 0) by (nonlinear_arith) requires fl == q * one, one > 0, b >= 0 ==> q >= 0;
    assert(b < 0 ==> q <= -1) by (nonlinear_arith) requires b == one * q + r, 0 <= r < one;
    assert(b < 0 ==> fl + one <= 0) by (nonlinear_arith) requires fl + one == (q + 1) * one, one > 0, b < 0 ==> q <= -1;
    if r == 0 {
        assert(-b == one * (-q) + 0) by (nonlinear_arith) requires b == one * q + r, r == 0;
        lemma_fundamental_div_mod_converse_div(-b, one, -q, 0);
        assert(floor_(-b, f) == (-q) * one);
        assert((-q) * one == -(q * one)) by (nonlinear_arith);
    } else {
        assert(-b == one * (-q - 1) + (one - r)) by (nonlinear_arith) requires b == one * q + r;
        lemma_fundamental_div_mod_converse_div(-b, one, -q - 1, one - r);
        assert(floor_(-b, f) == (-q - 1) * one);
        assert((-q - 1) * one == -(q * one) - one) by (nonlinear_arith);
    }
    if f < w {
        if s {
            // -2^(w-1) = one * (-2^(w-1-f)) is a multiple of one, so fl >= -2^(w-1)
            let g = w - 1 - f;
            lemma_p2_add(f, g); lemma_p2_pos(g);
            assert(p2(w - 1) == one * p2(g));
            assert(q >= -p2(g)) by (nonlinear_arith) requires b == one * q + r, 0 <= r < one, b >= -(one * p2(g)), one > 0;
            assert(fl >= -p2(w - 1)) by (nonlinear_arith) requires fl == q * one, q >= -p2(g), p2(w - 1) == one * p2(g), one > 0;
            lemma_wrap_id(s, w, fl);
            if f < w - 1 { lemma_p2_mono(f, w - 2); lemma_p2_step(w - 1); lemma_wrap_id(s, w, one); }
            else {
                // f == w - 1: wrap(2^(w-1)) == -2^(w-1)
                lemma_wrap_unique(s, w, one, -one, -1);
            }
        } else {
            lemma_wrap_id(s, w, fl);
            lemma_p2_mono(f, w - 1);
            lemma_wrap_id(s, w, one);
        }
    } else {
        // f == w
        if b < 0 {
            assert(q == -1) by (nonlinear_arith) requires b == one * q + r, 0 <= r < one, -one <= 2 * b, b < 0, one > 0;
        } else {
            assert(q == 0) by (nonlinear_arith) requires b == one * q + r, 0 <= r < one, 0 <= b < one, one > 0;
        }
        lemma_wrap_mult(s, w, q);
        lemma_wrap_mult(s, w, q + 1);
        assert(0 * p2(w) == 0);
    }
}
