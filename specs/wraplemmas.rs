// ---- specs/wraplemmas.rs: basic facts about p2 / fits / wrap (pure maths, fully proved) ----
pub proof fn lemma_p2_pos(n: int)
    ensures p2(n) >= 1
{ lemma_pow2_pos(n as nat); }

pub proof fn lemma_p2_step(n: int)
    requires n >= 1
    ensures p2(n) == 2 * p2(n - 1)
{ lemma_pow2_unfold(n as nat); }

pub proof fn lemma_p2_add(a: int, b: int)
    requires a >= 0, b >= 0
    ensures p2(a + b) == p2(a) * p2(b)
{ lemma_pow2_adds(a as nat, b as nat); }

pub proof fn lemma_p2_mono(a: int, b: int)
    requires 0 <= a <= b
    ensures p2(a) <= p2(b)
{
    if a < b { lemma_pow2_strictly_increases(a as nat, b as nat); }
}

// wrap(s, w, x) differs from x by a multiple of 2^w and lies in the range of the type
pub proof fn lemma_wrap_diff(s: bool, w: int, x: int) -> (k: int)
    requires w >= 1
    ensures wrap(s, w, x) == x - k * p2(w), fits(s, w, wrap(s, w, x))
{
    lemma_p2_pos(w); lemma_p2_step(w); lemma_p2_pos(w - 1);
    lemma_fundamental_div_mod(x, p2(w));
    lemma_mod_bound(x, p2(w));
    let q = x / p2(w);
    assert(p2(w) * q == q * p2(w)) by (nonlinear_arith);
    if s && x % p2(w) >= p2(w - 1) {
        assert((q + 1) * p2(w) == q * p2(w) + p2(w)) by (nonlinear_arith);
        q + 1
    } else { q }
}

pub proof fn lemma_wrap_shift(s: bool, w: int, x: int, k: int)
    requires w >= 1
    ensures wrap(s, w, x + k * p2(w)) == wrap(s, w, x)
{
    lemma_p2_pos(w);
    lemma_mod_multiples_vanish(k, x, p2(w));
    assert(p2(w) * k == k * p2(w)) by (nonlinear_arith);
}

pub proof fn lemma_wrap_id(s: bool, w: int, x: int)
    requires w >= 1, fits(s, w, x)
    ensures wrap(s, w, x) == x
{
    lemma_p2_pos(w); lemma_p2_step(w); lemma_p2_pos(w - 1);
    if x >= 0 { lemma_small_mod(x as nat, p2(w) as nat); }
    else {
        lemma_mod_add_multiples_vanish(x, p2(w));
        lemma_small_mod((x + p2(w)) as nat, p2(w) as nat);
    }
}

// y in range and y ≡ x (mod 2^w)  ==>  y == wrap(x)
pub proof fn lemma_wrap_unique(s: bool, w: int, x: int, y: int, k: int)
    requires w >= 1, fits(s, w, y), y == x + k * p2(w)
    ensures y == wrap(s, w, x)
{
    lemma_wrap_shift(s, w, x, k);
    lemma_wrap_id(s, w, y);
}

pub proof fn lemma_wrap_wrap(s: bool, w: int, x: int)
    requires w >= 1
    ensures wrap(s, w, wrap(s, w, x)) == wrap(s, w, x)
{
    let k = lemma_wrap_diff(s, w, x);
    lemma_wrap_id(s, w, wrap(s, w, x));
}

pub proof fn lemma_fits_wrap(s: bool, w: int, x: int)
    requires w >= 1
    ensures fits(s, w, x) <==> wrap(s, w, x) == x
{
    let k = lemma_wrap_diff(s, w, x);
    if fits(s, w, x) { lemma_wrap_id(s, w, x); }
}

// characterisation of wrap: in range, congruent to x, and the only such value
pub proof fn lemma_wrap_char(s: bool, w: int, x: int)
    requires w >= 1
    ensures fits(s, w, wrap(s, w, x)), (wrap(s, w, x) - x) % p2(w) == 0,
        forall|y: int| fits(s, w, y) && #[trigger] ((y - x) % p2(w)) == 0 ==> y == wrap(s, w, x)
{
    let k = lemma_wrap_diff(s, w, x);
    lemma_p2_pos(w);
    assert(wrap(s, w, x) - x == (-k) * p2(w)) by (nonlinear_arith) requires wrap(s, w, x) == x - k * p2(w);
    lemma_mod_multiples_basic(-k, p2(w));
    assert forall|y: int| fits(s, w, y) && #[trigger] ((y - x) % p2(w)) == 0 implies y == wrap(s, w, x) by {
        let d = y - x;
        lemma_fundamental_div_mod(d, p2(w));
        let j = d / p2(w);
        assert(y == x + j * p2(w)) by (nonlinear_arith) requires d == p2(w) * j + 0, d == y - x;
        lemma_wrap_unique(s, w, x, y, j);
    }
}
