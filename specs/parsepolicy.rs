// ---- the four overflow policies of the public parsing API (impl_from_str_traits!, macros_from_to.rs), over the literal value defined by specs/grammar.rs + specs/litvalue.rs ----
// the literal's exact value scaled by 2^f, correctly rounded (ties to even), with its sign
pub open spec fn lit_sv(b: Seq<u8>, radix: u32, f: int) -> int {
    let p = parse_spec(b, radix).unwrap(); let a = lit_abs(p.1, p.2, radix, f); if p.0 { -a } else { a }
}
// overflowing: (value mod 2^W, flag exactly when out of range); any other string is the error of its first offending byte
pub open spec fn pol_overflowing(b: Seq<u8>, radix: u32, s: bool, w: int, f: int, r: Result<(int, bool), ParseErrorKind>) -> bool {
    match r { Ok(t) => parse_spec(b, radix).is_some() && t.0 == wrap(s, w, lit_sv(b, radix, f)) && t.1 == !fits(s, w, lit_sv(b, radix, f))
                       && lit_abs(parse_spec(b, radix).unwrap().1, parse_spec(b, radix).unwrap().2, radix, f) >= 0,      // (a fact about the literal value, carried along for the saturating form)
              Err(k) => gerr(b, radix) == Some(k) }
}
// plain: the value when it is in range, an Overflow error exactly when it is not
pub open spec fn pol_checked(b: Seq<u8>, radix: u32, s: bool, w: int, f: int, r: Result<int, ParseErrorKind>) -> bool {
    match r { Ok(v) => parse_spec(b, radix).is_some() && fits(s, w, lit_sv(b, radix, f)) && v == lit_sv(b, radix, f),
              Err(k) => gerr(b, radix) == Some(k) || (parse_spec(b, radix).is_some() && !fits(s, w, lit_sv(b, radix, f)) && k == ParseErrorKind::Overflow) }
}
// saturating: the value clamped to the bound on the literal's side
pub open spec fn pol_saturating(b: Seq<u8>, radix: u32, s: bool, w: int, f: int, r: Result<int, ParseErrorKind>) -> bool {
    match r { Ok(v) => parse_spec(b, radix).is_some() && v == clamp(s, w, lit_sv(b, radix, f)),
              Err(k) => gerr(b, radix) == Some(k) }
}
// wrapping: the value modulo 2^W
pub open spec fn pol_wrapping(b: Seq<u8>, radix: u32, s: bool, w: int, f: int, r: Result<int, ParseErrorKind>) -> bool {
    match r { Ok(v) => parse_spec(b, radix).is_some() && v == wrap(s, w, lit_sv(b, radix, f)),
              Err(k) => gerr(b, radix) == Some(k) }
}
