//! C06 twins: every rounding method of the 18 eight-bit layouts against the exact integer definition.
use crate::common::*;

struct R { fl: i32, ce: i32, rz: i32, rnd: i32, rte: i32 }
fn exact(a: i32, f: u32) -> R {
    let one = 1i32 << f;
    let fl = floor_div(a, one) * one;
    let ce = -floor_div(-a, one) * one;
    let rz = (a / one) * one;
    let rem = a - fl;
    let rnd = if a < 0 { if 2 * rem > one { fl + one } else { fl } } else { if 2 * rem >= one { fl + one } else { fl } };
    let rte = if 2 * rem > one { fl + one } else if 2 * rem < one { fl } else if (fl / one) % 2 == 0 { fl } else { fl + one };
    R { fl, ce, rz, rnd, rte }
}

macro_rules! round_twins {
    ($modname:ident, $Fixed:ident, $T:ty, $signed:expr) => {
        pub mod $modname {
            use super::*;
            fn check<F: LeEqU8>(a: $T, f: u32) where $Fixed<F>: Copy {
                let x = $Fixed::<F>::from_bits(a);
                let fx = |b: i32| $Fixed::<F>::from_bits(b as $T);
                let e = exact(a as i32, f);
                // int / frac
                if f < 8 {
                    assert!(x.int() == fx(e.fl));
                    assert!(x.frac() == fx(a as i32 - e.fl));
                    assert!(x.int().to_bits() as i32 + x.frac().to_bits() as i32 == a as i32);
                    assert!(x.frac().to_bits() as i32 >= 0 && (x.frac().to_bits() as i32) < (1 << f));
                }
                assert!(x.round_to_zero() == fx(e.rz));
                let p = pol($signed, e.fl);
                assert!(x.overflowing_floor() == (fx(p.wrapped), !p.fits));
                assert!(x.wrapping_floor() == fx(p.wrapped));
                assert!(x.saturating_floor() == fx(p.clamped));
                assert!(x.checked_floor() == if p.fits { Some(fx(e.fl)) } else { None });
                if p.fits { assert!(x.floor() == fx(e.fl)); }
                let p = pol($signed, e.ce);
                assert!(x.overflowing_ceil() == (fx(p.wrapped), !p.fits));
                assert!(x.wrapping_ceil() == fx(p.wrapped));
                assert!(x.saturating_ceil() == fx(p.clamped));
                assert!(x.checked_ceil() == if p.fits { Some(fx(e.ce)) } else { None });
                if p.fits { assert!(x.ceil() == fx(e.ce)); }
                let p = pol($signed, e.rnd);
                assert!(x.overflowing_round() == (fx(p.wrapped), !p.fits));
                assert!(x.wrapping_round() == fx(p.wrapped));
                assert!(x.saturating_round() == fx(p.clamped));
                assert!(x.checked_round() == if p.fits { Some(fx(e.rnd)) } else { None });
                if p.fits { assert!(x.round() == fx(e.rnd)); }
                let p = pol($signed, e.rte);
                assert!(x.overflowing_round_ties_to_even() == (fx(p.wrapped), !p.fits));
                assert!(x.wrapping_round_ties_to_even() == fx(p.wrapped));
                assert!(x.saturating_round_ties_to_even() == fx(p.clamped));
                assert!(x.checked_round_ties_to_even() == if p.fits { Some(fx(e.rte)) } else { None });
                if p.fits { assert!(x.round_ties_to_even() == fx(e.rte)); }
            }
            #[cfg(kani)]
            #[kani::proof]
            pub fn rounding_all_layouts() {
                let a: $T = kani::any();
                let f = any_frac8();
                with_frac8!(f, F => check::<F>(a, f));
            }
        }
    };
}
round_twins!(i8f, FixedI8, i8, true);
round_twins!(u8f, FixedU8, u8, false);
