//! C10: the real parity-scale-codec on one alias per family and on `Wrapping`: encoding == little-endian bytes of
//! the bit pattern, max_encoded_len == width/8, decode round trip consuming the input, shorter input fails,
//! byte views are mutually inverse.  The derive and the byte methods do not mention `Frac`.
use crate::common::*;
use codec::{Decode, Encode, MaxEncodedLen};

macro_rules! codec_harness {
    ($name:ident, $Fx:ty, $T:ty, $n:expr) => {
        #[cfg(kani)]
        #[kani::proof]
        #[kani::unwind(18)]
        pub fn $name() {
            let b: $T = kani::any();
            let x = <$Fx>::from_bits(b);
            let enc = x.encode();
            let le = b.to_le_bytes();
            assert!(enc.len() == $n);
            assert!(<$Fx>::max_encoded_len() == $n);
            assert!(enc[..] == le[..]);
            assert!(enc[..] == x.to_le_bytes()[..]);
            assert!(enc[..] == b.encode()[..]);
            let mut input = &enc[..];
            let dec = <$Fx>::decode(&mut input);
            assert!(dec == Ok(x));
            assert!(input.is_empty());
            let k: usize = kani::any();
            kani::assume(k < $n);
            let mut short = &enc[..k];
            assert!(<$Fx>::decode(&mut short).is_err());
            // bit / byte views
            assert!(<$Fx>::from_bits(x.to_bits()) == x && x.to_bits() == b);
            assert!(<$Fx>::from_le_bytes(x.to_le_bytes()) == x);
            assert!(<$Fx>::from_be_bytes(x.to_be_bytes()) == x);
            assert!(<$Fx>::from_ne_bytes(x.to_ne_bytes()) == x);
            assert!(x.to_be_bytes() == b.to_be_bytes() && x.to_ne_bytes() == b.to_ne_bytes());
            let bytes: [u8; $n] = kani::any();
            assert!(<$Fx>::from_le_bytes(bytes).to_le_bytes() == bytes);
            assert!(<$Fx>::from_be_bytes(bytes).to_be_bytes() == bytes);
            assert!(<$Fx>::from_le_bytes(bytes).to_bits() == <$T>::from_le_bytes(bytes));
            // the same views through the `Fixed` trait (generic code reaches them this way; seed C10-D)
            assert!(<$Fx as substrate_fixed::traits::Fixed>::to_le_bytes(x) == b.to_le_bytes());
            assert!(<$Fx as substrate_fixed::traits::Fixed>::to_be_bytes(x) == b.to_be_bytes());
            assert!(<$Fx as substrate_fixed::traits::Fixed>::to_ne_bytes(x) == b.to_ne_bytes());
            assert!(<$Fx as substrate_fixed::traits::Fixed>::from_le_bytes(bytes).to_bits() == <$T>::from_le_bytes(bytes));
            assert!(<$Fx as substrate_fixed::traits::Fixed>::from_be_bytes(bytes).to_bits() == <$T>::from_be_bytes(bytes));
            assert!(<$Fx as substrate_fixed::traits::Fixed>::from_ne_bytes(bytes).to_bits() == <$T>::from_ne_bytes(bytes));
            assert!(<$Fx as substrate_fixed::traits::Fixed>::to_bits(x) == b && <$Fx as substrate_fixed::traits::Fixed>::from_bits(b) == x);
        }
    };
}
// per family: a fractional-bit count that is not a multiple of 8 (or the historical alias), plus (thorough) Frac = 0 and Frac = width
codec_harness!(codec_i8, FixedI8<U3>, i8, 1);
codec_harness!(codec_i8_f0, FixedI8<U0>, i8, 1);
codec_harness!(codec_i8_fw, FixedI8<U8>, i8, 1);
codec_harness!(codec_u8, FixedU8<U5>, u8, 1);
codec_harness!(codec_u8_f0, FixedU8<U0>, u8, 1);
codec_harness!(codec_u8_fw, FixedU8<U8>, u8, 1);
codec_harness!(codec_i16, FixedI16<U9>, i16, 2);
codec_harness!(codec_i16_f0, FixedI16<U0>, i16, 2);
codec_harness!(codec_i16_fw, FixedI16<U16>, i16, 2);
codec_harness!(codec_u16, FixedU16<U11>, u16, 2);
codec_harness!(codec_u16_f0, FixedU16<U0>, u16, 2);
codec_harness!(codec_u16_fw, FixedU16<U16>, u16, 2);
codec_harness!(codec_i32, FixedI32<U23>, i32, 4);
codec_harness!(codec_i32_f0, FixedI32<U0>, i32, 4);
codec_harness!(codec_i32_fw, FixedI32<U32>, i32, 4);
codec_harness!(codec_u32, FixedU32<U17>, u32, 4);
codec_harness!(codec_u32_f0, FixedU32<U0>, u32, 4);
codec_harness!(codec_u32_fw, FixedU32<U32>, u32, 4);
codec_harness!(codec_i64, FixedI64<U1>, i64, 8);
codec_harness!(codec_i64_f0, FixedI64<U0>, i64, 8);
codec_harness!(codec_i64_fw, FixedI64<U64>, i64, 8);
codec_harness!(codec_u64, FixedU64<U40>, u64, 8);
codec_harness!(codec_u64_f0, FixedU64<U0>, u64, 8);
codec_harness!(codec_u64_fw, FixedU64<U64>, u64, 8);
codec_harness!(codec_i128, FixedI128<U64>, i128, 16);
codec_harness!(codec_i128_f0, FixedI128<U0>, i128, 16);
codec_harness!(codec_i128_fw, FixedI128<U128>, i128, 16);
codec_harness!(codec_u128, FixedU128<U127>, u128, 16);
codec_harness!(codec_u128_f0, FixedU128<U0>, u128, 16);
codec_harness!(codec_u128_fw, FixedU128<U128>, u128, 16);

// the fractional-bit count never changes the encoding
#[cfg(kani)]
#[kani::proof]
#[kani::unwind(18)]
pub fn codec_frac_independent() {
    let b: i32 = kani::any();
    assert!(FixedI32::<U0>::from_bits(b).encode() == FixedI32::<U32>::from_bits(b).encode());
    assert!(FixedI32::<U9>::from_bits(b).encode() == FixedI32::<U23>::from_bits(b).encode());
}
