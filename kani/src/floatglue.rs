//! C05 policy glue: the public float <-> fixed conversions of the 8-bit families (all nine layouts symbolic) for
//! every f32 / f64 bit pattern: checked / saturating / wrapping / overflowing forms against the exactly rounded
//! value, non-finite inputs rejected as documented, and to_num::<f32/f64> equal to the IEEE-754 RNE encoding.
use crate::common::*;
use crate::float::{oracle_f32, oracle_f64};

// exact rounding of (-1)^neg * m * 2^e to f fraction bits: (magnitude saturated at 2^20, inexact-huge flag)
fn rne_fixed(m: u64, e: i32, f: u32) -> u64 {
    if m == 0 { return 0; }
    let k = e + f as i32;
    if k >= 0 { if k > 20 { 1 << 40 } else { let v = (m as u128) << k; if v > (1 << 40) { 1 << 40 } else { v as u64 } } }
    else {
        let s = (-k) as u32;
        if s >= 64 { return 0; }
        let q = m >> s; let rem = m & ((1u64 << s) - 1); let half = 1u64 << (s - 1);
        let r = if rem > half || (rem == half && q & 1 == 1) { q + 1 } else { q };
        r.min(1 << 40)
    }
}
fn decode32(bits: u32) -> (bool, u64, i32, u8) {
    let neg = bits >> 31 != 0; let be = (bits >> 23) & 0xff; let mf = (bits & 0x7f_ffff) as u64;
    let class = if be == 255 { if mf == 0 { 1 } else { 2 } } else { 0 };
    let (m, e) = if be == 0 { (mf, -149) } else { (mf | (1 << 23), be as i32 - 150) };
    (neg, m, e, class)
}
fn decode64(bits: u64) -> (bool, u64, i32, u8) {
    let neg = bits >> 63 != 0; let be = ((bits >> 52) & 0x7ff) as u32; let mf = bits & 0xf_ffff_ffff_ffff;
    let class = if be == 2047 { if mf == 0 { 1 } else { 2 } } else { 0 };
    let (m, e) = if be == 0 { (mf, -1074) } else { (mf | (1 << 52), be as i32 - 1075) };
    (neg, m, e, class)
}

macro_rules! from_float {
    ($name:ident, $Fixed:ident, $T:ty, $signed:expr, $F:ident, $f:expr, $FT:ident, $BT:ty, $decode:ident) => {
        #[cfg(kani)]
        #[kani::proof]
        pub fn $name() {
            let bits: $BT = kani::any();
            let (neg, m, e, class) = $decode(bits);
            let x = $FT::from_bits(bits);
            type Fx = $Fixed<$F>;
            let fx = |b: i64| Fx::from_bits(b as $T);
            let (min, max): (i64, i64) = if $signed { (-128, 127) } else { (0, 255) };
            if class == 2 {
                assert!(Fx::checked_from_num(x).is_none());
            } else if class == 1 {
                assert!(Fx::checked_from_num(x).is_none());
                assert!(Fx::saturating_from_num(x) == fx(if neg { min } else { max }));
            } else {
                let mag = rne_fixed(m, e, $f) as i64;
                let r = if neg { -mag } else { mag };
                let fits = r >= min && r <= max;
                let wrapped = if $signed { (r as i8) as i64 } else { (r as u8) as i64 };
                assert!(Fx::checked_from_num(x) == if fits { Some(fx(r)) } else { None });
                assert!(Fx::saturating_from_num(x) == fx(if r < min { min } else if r > max { max } else { r }));
                let (w, o) = Fx::overflowing_from_num(x);
                assert!(o == !fits);
                if mag < (1 << 40) { assert!(w == fx(wrapped)); }
            }
        }
    };
}
macro_rules! from_float_all {
    ($($n:ident, $F:ident, $f:expr;)*) => { $(
        pub mod $n {
            use super::*;
            from_float!(i8_from_f32, FixedI8, i8, true, $F, $f, f32, u32, decode32);
            from_float!(u8_from_f32, FixedU8, u8, false, $F, $f, f32, u32, decode32);
            from_float!(i8_from_f64, FixedI8, i8, true, $F, $f, f64, u64, decode64);
            from_float!(u8_from_f64, FixedU8, u8, false, $F, $f, f64, u64, decode64);
        }
    )* };
}
from_float_all! { g0, U0, 0; g1, U1, 1; g2, U2, 2; g3, U3, 3; g4, U4, 4; g5, U5, 5; g6, U6, 6; g7, U7, 7; g8, U8, 8; }
// the wrapping form is the value part of the overflowing form
#[cfg(kani)]
#[kani::proof]
pub fn wrapping_is_overflowing_value() {
    let bits: u32 = kani::any();
    let x = f32::from_bits(bits);
    kani::assume(x.is_finite());
    assert!(FixedI8::<U3>::wrapping_from_num(x) == FixedI8::<U3>::overflowing_from_num(x).0);
    assert!(FixedU8::<U8>::wrapping_from_num(x) == FixedU8::<U8>::overflowing_from_num(x).0);
}

// NaN panics in the non-checked forms; infinity panics in the non-saturating ones
#[cfg(kani)]
#[kani::proof]
#[kani::should_panic]
pub fn nan_panics_in_saturating() { let _ = FixedI8::<U4>::saturating_from_num(f32::NAN); }
#[cfg(kani)]
#[kani::proof]
#[kani::should_panic]
pub fn nan_panics_in_wrapping() { let _ = FixedU8::<U4>::wrapping_from_num(f64::NAN); }
#[cfg(kani)]
#[kani::proof]
#[kani::should_panic]
pub fn inf_panics_in_overflowing() { let _ = FixedU8::<U0>::overflowing_from_num(f32::INFINITY); }

macro_rules! to_float {
    ($name:ident, $Fixed:ident, $T:ty) => {
        #[cfg(kani)]
        #[kani::proof]
        pub fn $name() {
            let a: $T = kani::any();
            let f = any_frac8();
            let neg = (a as i64) < 0;
            let abs = (a as i64).unsigned_abs() as u128;
            with_frac8!(f, F => {
                let x = $Fixed::<F>::from_bits(a);
                assert!(x.to_num::<f32>().to_bits() == oracle_f32(neg, abs, f));
                assert!(x.to_num::<f64>().to_bits() == oracle_f64(neg, abs, f));
            });
        }
    };
}
to_float!(i8_to_float, FixedI8, i8);
to_float!(u8_to_float, FixedU8, u8);
// wider sources at fixed layouts: the sticky bits of a 128-bit value, a 64-bit value
#[cfg(kani)]
#[kani::proof]
pub fn u128_to_float() {
    let a: u128 = kani::any();
    let x = FixedU128::<U64>::from_bits(a);
    assert!(x.to_num::<f32>().to_bits() == oracle_f32(false, a, 64));
    assert!(x.to_num::<f64>().to_bits() == oracle_f64(false, a, 64));
}
#[cfg(kani)]
#[kani::proof]
pub fn i64_to_float() {
    let a: i64 = kani::any();
    let x = FixedI64::<U20>::from_bits(a);
    assert!(x.to_num::<f32>().to_bits() == oracle_f32(a < 0, a.unsigned_abs() as u128, 20));
    assert!(x.to_num::<f64>().to_bits() == oracle_f64(a < 0, a.unsigned_abs() as u128, 20));
}
