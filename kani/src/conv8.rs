//! C04 twins: fixed<->fixed and fixed<->integer conversions on the eight-bit layouts (both fracs symbolic),
//! a sample of cross-width pairs, and the From / LossyFrom impls of representative pairs.
use crate::common::*;
use substrate_fixed::traits::{FromFixed, ToFixed, LossyFrom};

// one source layout per harness, destination layout symbolic: 4 sign pairs x 9 source layouts = all 324 ordered pairs
macro_rules! conv8 {
    ($name:ident, $S:ident, $ST:ty, $FS:ident, $fs:expr, $D:ident, $DT:ty, $dsigned:expr) => {
        #[cfg(kani)]
        #[kani::proof]
        pub fn $name() {
            let a: $ST = kani::any();
            let fd = any_frac8();
            let r = floor_div((a as i32) << fd, 1i32 << $fs);
            let p = pol($dsigned, r);
            with_frac8!(fd, FD => {
                let src = $S::<$FS>::from_bits(a);
                let dfx = |b: i32| $D::<FD>::from_bits(b as $DT);
                assert!($D::<FD>::overflowing_from_num(src) == (dfx(p.wrapped), !p.fits));
                assert!($D::<FD>::wrapping_from_num(src) == dfx(p.wrapped));
                assert!($D::<FD>::saturating_from_num(src) == dfx(p.clamped));
                assert!($D::<FD>::checked_from_num(src) == if p.fits { Some(dfx(r)) } else { None });
                if p.fits { assert!($D::<FD>::from_num(src) == dfx(r)); }
                assert!(src.overflowing_to_num::<$D<FD>>() == (dfx(p.wrapped), !p.fits));
                assert!(src.wrapping_to_num::<$D<FD>>() == dfx(p.wrapped));
                assert!(src.saturating_to_num::<$D<FD>>() == dfx(p.clamped));
                assert!(src.checked_to_num::<$D<FD>>() == if p.fits { Some(dfx(r)) } else { None });
            });
        }
    };
}
macro_rules! conv8_all {
    ($($n:ident, $FS:ident, $fs:expr;)*) => { $(
        pub mod $n {
            use super::*;
            conv8!(i8_to_i8, FixedI8, i8, $FS, $fs, FixedI8, i8, true);
            conv8!(i8_to_u8, FixedI8, i8, $FS, $fs, FixedU8, u8, false);
            conv8!(u8_to_i8, FixedU8, u8, $FS, $fs, FixedI8, i8, true);
            conv8!(u8_to_u8, FixedU8, u8, $FS, $fs, FixedU8, u8, false);
        }
    )* };
}
conv8_all! { s0, U0, 0; s1, U1, 1; s2, U2, 2; s3, U3, 3; s4, U4, 4; s5, U5, 5; s6, U6, 6; s7, U7, 7; s8, U8, 8; }

// fixed <-> primitive integer (every integer type), 8-bit fixed side with symbolic frac
macro_rules! conv_int {
    ($name:ident, $Fx:ident, $FT:ty, $fsigned:expr, $I:ty, $imin:expr, $imax:expr) => {
        #[cfg(kani)]
        #[kani::proof]
        pub fn $name() {
            let a: $FT = kani::any();
            let n: $I = kani::any();
            let f = any_frac8();
            with_frac8!(f, F => {
                // integer -> fixed : exact value n * 2^f
                let fx = |b: i128| $Fx::<F>::from_bits(b as $FT);
                let (fmin, fmax): (i128, i128) = if $fsigned { (-128, 127) } else { (0, 255) };
                #[allow(unused_comparisons)]
                let n_neg = n < 0;
                let mag: u128 = if n_neg { (n as i128).unsigned_abs() } else { n as u128 };
                let big = mag > (1u128 << 40);
                let r: i128 = if big { 0 } else if n_neg { -((mag as i128) << f) } else { (mag as i128) << f };
                let fits = !big && r >= fmin && r <= fmax;
                let wrapped = if $fsigned { (((n as u128) << f) as i8) as i128 } else { (((n as u128) << f) as u8) as i128 };
                let clamped = if fits { r } else if n_neg { fmin } else { fmax };
                assert!($Fx::<F>::overflowing_from_num(n) == (fx(wrapped), !fits));
                assert!($Fx::<F>::wrapping_from_num(n) == fx(wrapped));
                assert!($Fx::<F>::saturating_from_num(n) == fx(clamped));
                assert!($Fx::<F>::checked_from_num(n) == if fits { Some(fx(r)) } else { None });
                // fixed -> integer : floor(a / 2^f)
                let src = $Fx::<F>::from_bits(a);
                let q = floor_div(a as i32, 1i32 << f) as i128;
                let ifits = if q < 0 { <$I>::MIN != 0 && q >= <$I>::MIN as i128 } else { (q as u128) <= <$I>::MAX as u128 };
                assert!(src.overflowing_to_num::<$I>() == (q as $I, !ifits));
                assert!(src.wrapping_to_num::<$I>() == q as $I);
                assert!(src.saturating_to_num::<$I>() == if ifits { q as $I } else if q < 0 { <$I>::MIN } else { <$I>::MAX });
                assert!(src.checked_to_num::<$I>() == if ifits { Some(q as $I) } else { None });
            });
        }
    };
}
conv_int!(i8f_i8, FixedI8, i8, true, i8, i8::MIN, i8::MAX);
conv_int!(i8f_u8, FixedI8, i8, true, u8, u8::MIN, u8::MAX);
conv_int!(u8f_i8, FixedU8, u8, false, i8, i8::MIN, i8::MAX);
conv_int!(u8f_u16, FixedU8, u8, false, u16, u16::MIN, u16::MAX);
conv_int!(i8f_i32, FixedI8, i8, true, i32, i32::MIN, i32::MAX);
conv_int!(u8f_i64, FixedU8, u8, false, i64, i64::MIN, i64::MAX);
conv_int!(i8f_u128, FixedI8, i8, true, u128, u128::MIN, u128::MAX);
conv_int!(i8f_i128, FixedI8, i8, true, i128, i128::MIN, i128::MAX);
conv_int!(u8f_usize, FixedU8, u8, false, usize, usize::MIN, usize::MAX);
conv_int!(i8f_isize, FixedI8, i8, true, isize, isize::MIN, isize::MAX);

// bool -> fixed (impl ToFixed for bool): the value 0 or 1, all four non-panicking policies, every 8-bit layout
macro_rules! conv_bool {
    ($name:ident, $Fx:ident, $FT:ty, $fsigned:expr) => {
        #[cfg(kani)]
        #[kani::proof]
        pub fn $name() {
            let b: bool = kani::any();
            let f = any_frac8();
            with_frac8!(f, F => {
                let fx = |v: i128| $Fx::<F>::from_bits(v as $FT);
                let (fmin, fmax): (i128, i128) = if $fsigned { (-128, 127) } else { (0, 255) };
                let r: i128 = if b { 1i128 << f } else { 0 };
                let fits = r >= fmin && r <= fmax;
                let wrapped = if $fsigned { ((r as u128) as i8) as i128 } else { ((r as u128) as u8) as i128 };
                assert!($Fx::<F>::overflowing_from_num(b) == (fx(wrapped), !fits));
                assert!($Fx::<F>::wrapping_from_num(b) == fx(wrapped));
                assert!($Fx::<F>::saturating_from_num(b) == fx(if fits { r } else { fmax }));
                assert!($Fx::<F>::checked_from_num(b) == if fits { Some(fx(r)) } else { None });
            });
        }
    };
}
conv_bool!(i8f_bool, FixedI8, i8, true);
conv_bool!(u8f_bool, FixedU8, u8, false);

// cross-width conversions at fixed layouts: r = floor(a * 2^fd / 2^fs) against the destination range
macro_rules! convx {
    ($name:ident, $S:ident, $ST:ty, $FS:ident, $fs:expr, $D:ident, $DT:ty, $FD:ident, $fd:expr) => {
        #[cfg(kani)]
        #[kani::proof]
        pub fn $name() {
            let a: $ST = kani::any();
            let src = $S::<$FS>::from_bits(a);
            let r: i128 = if $fd >= $fs { (a as i128) << ($fd - $fs) } else { (a as i128) >> ($fs - $fd) };
            let fits = r >= <$DT>::MIN as i128 && r <= <$DT>::MAX as i128;
            let d = |b: i128| $D::<$FD>::from_bits(b as $DT);
            assert!($D::<$FD>::overflowing_from_num(src) == (d(r), !fits));
            assert!($D::<$FD>::checked_from_num(src) == if fits { Some(d(r)) } else { None });
            assert!($D::<$FD>::saturating_from_num(src) == if fits { d(r) } else if r < 0 { d(<$DT>::MIN as i128) } else { d(<$DT>::MAX as i128) });
            assert!($D::<$FD>::wrapping_from_num(src) == d(r));
        }
    };
}
convx!(x_i32f16_i8f4, FixedI32, i32, U16, 16, FixedI8, i8, U4, 4);
convx!(x_u8f8_i64f40, FixedU8, u8, U8, 8, FixedI64, i64, U40, 40);
convx!(x_i64f60_u16f2, FixedI64, i64, U60, 60, FixedU16, u16, U2, 2);
convx!(x_i16f0_u64f48, FixedI16, i16, U0, 0, FixedU64, u64, U48, 48);
convx!(x_u32f31_i32f31, FixedU32, u32, U31, 31, FixedI32, i32, U31, 31);
convx!(x_i8f7_u8f7, FixedI8, i8, U7, 7, FixedU8, u8, U7, 7);

// infallible From / LossyFrom: value preserving resp. only fraction bits lost, never an overflow
#[cfg(kani)]
#[kani::proof]
pub fn from_impls() {
    let a: i8 = kani::any();
    let u: u8 = kani::any();
    // I4F4 -> I12F4 ... widening with more fraction bits
    assert!(FixedI16::<U6>::from(FixedI8::<U4>::from_bits(a)).to_bits() == (a as i16) << 2);
    assert!(FixedI32::<U20>::from(FixedI8::<U4>::from_bits(a)).to_bits() == (a as i32) << 16);
    assert!(FixedU16::<U9>::from(FixedU8::<U8>::from_bits(u)).to_bits() == (u as u16) << 1);
    // unsigned -> signed needs one more integer bit
    assert!(FixedI16::<U7>::from(FixedU8::<U7>::from_bits(u)).to_bits() == u as i16);
    assert!(FixedI128::<U100>::from(FixedU8::<U3>::from_bits(u)).to_bits() == (u as i128) << 97);
    // integers and bool
    assert!(FixedI16::<U8>::from(a).to_bits() == (a as i16) << 8);
    assert!(FixedU32::<U24>::from(u).to_bits() == (u as u32) << 24);
    assert!(FixedI32::<U23>::from(u).to_bits() == (u as i32) << 23);
    let b: bool = kani::any();
    assert!(FixedU8::<U7>::from(b).to_bits() == (b as u8) << 7);
    assert!(FixedI8::<U6>::from(b).to_bits() == (b as i8) << 6);
    assert!(i8::from(FixedI8::<U0>::from_bits(a)) == a);
    assert!(i32::from(FixedI8::<U0>::from_bits(a)) == a as i32);
    assert!(u64::from(FixedU8::<U0>::from_bits(u)) == u as u64);
    assert!(i16::from(FixedU8::<U0>::from_bits(u)) == u as i16);
}
#[cfg(kani)]
#[kani::proof]
pub fn lossy_from_impls() {
    let a: i16 = kani::any();
    let u: u16 = kani::any();
    // same or more integer bits, any fraction bits: only fraction bits are dropped (floor)
    assert!(FixedI8::<U1>::lossy_from(FixedI16::<U9>::from_bits(a)).to_bits() as i32 == (a as i32) >> 8);
    assert!(FixedI32::<U2>::lossy_from(FixedI16::<U9>::from_bits(a)).to_bits() == (a as i32) >> 7);
    assert!(FixedU16::<U0>::lossy_from(FixedU16::<U5>::from_bits(u)).to_bits() == u >> 5);
    assert!(FixedI32::<U0>::lossy_from(FixedU16::<U5>::from_bits(u)).to_bits() == (u >> 5) as i32);
    assert!(i8::lossy_from(FixedI16::<U9>::from_bits(a)) as i32 == (a as i32) >> 9);
    assert!(u16::lossy_from(FixedU16::<U5>::from_bits(u)) == u >> 5);
    assert!(i64::lossy_from(FixedU16::<U5>::from_bits(u)) == (u >> 5) as i64);
    // sources without integer bits: the floor is -1 or 0
    assert!(i8::lossy_from(FixedI16::<U16>::from_bits(a)) == if a < 0 { -1 } else { 0 });
    assert!(i16::lossy_from(FixedI16::<U16>::from_bits(a)) == if a < 0 { -1 } else { 0 });
    assert!(i128::lossy_from(FixedI8::<U8>::from_bits(a as i8)) == if (a as i8) < 0 { -1 } else { 0 });
    assert!(u16::lossy_from(FixedU16::<U16>::from_bits(u)) == 0);
    assert!(i32::lossy_from(FixedU16::<U16>::from_bits(u)) == 0);
    assert!(FixedI8::<U0>::lossy_from(FixedI8::<U8>::from_bits(a as i8)).to_bits() == if (a as i8) < 0 { -1 } else { 0 });
}
