//! C18 twins: `Wrapping<F>` on eight-bit layouts equals the exact result modulo 2^8 (and the wrapping_* form of F).
use crate::common::*;
use substrate_fixed::Wrapping;

macro_rules! wrap_twins {
    ($modname:ident, $Fixed:ident, $T:ty, $signed:expr, $F:ident, $f:expr) => {
        pub mod $modname {
            use super::*;
            type Fx = $Fixed<$F>;
            type W = Wrapping<Fx>;
            fn w(b: i32) -> W { Wrapping(Fx::from_bits(b as $T)) }
            const ONE: i32 = 1 << $f;
            #[cfg(kani)]
            #[kani::proof]
            pub fn arith_ops() {
                let (a, b): ($T, $T) = (kani::any(), kani::any());
                let (x, y) = (Wrapping(Fx::from_bits(a)), Wrapping(Fx::from_bits(b)));
                let (ai, bi) = (a as i32, b as i32);
                assert!(x + y == w(pol($signed, ai + bi).wrapped));
                assert!(x - y == w(pol($signed, ai - bi).wrapped));
                assert!(-x == w(pol($signed, -ai).wrapped));
                assert!(x * y == w(pol($signed, floor_div(ai * bi, ONE)).wrapped));
                assert!(&x + &y == x + y && &x - y == x - y && x * &y == x * y);
                let mut z = x; z += y; assert!(z == x + y);
                let mut z = x; z -= &y; assert!(z == x - y);
                let mut z = x; z *= y; assert!(z == x * y);
                assert!(x * b == w(pol($signed, ai * bi).wrapped));
                let mut z = x; z *= b; assert!(z == x * b);
                if b != 0 {
                    assert!(x / y == w(pol($signed, (ai * ONE) / bi).wrapped));
                    assert!(x % y == w(ai % bi));
                    assert!(x / b == w(pol($signed, ai / bi).wrapped));
                    assert!(x % b == Wrapping(Fx::from_bits(a) % b));
                    let mut z = x; z /= y; assert!(z == x / y);
                    let mut z = x; z %= y; assert!(z == x % y);
                    assert!(x.rem_euclid(y) == w(ai.rem_euclid(bi)));
                    assert!(x.div_euclid(y) == Wrapping(Fx::from_bits(a).wrapping_div_euclid(Fx::from_bits(b))));
                    assert!(x.div_euclid_int(b) == Wrapping(Fx::from_bits(a).wrapping_div_euclid_int(b)));
                    assert!(x.rem_euclid_int(b) == Wrapping(Fx::from_bits(a).wrapping_rem_euclid_int(b)));
                }
            }
            // by-reference and assigning forms forward to the by-value operator (the impls are generic over F)
            #[cfg(kani)]
            #[kani::proof]
            pub fn ref_and_assign_forms() {
                let (a, b): ($T, $T) = (kani::any(), kani::any());
                let (x, y) = (Wrapping(Fx::from_bits(a)), Wrapping(Fx::from_bits(b)));
                let (s, d, m) = (x + y, x - y, x * y);
                assert!(x + &y == s && &x + y == s && &x + &y == s);
                assert!(x - &y == d && &x - y == d && &x - &y == d);
                assert!(x * &y == m && &x * y == m && &x * &y == m);
                assert!(-&x == -x);
                let mi = x * b;
                assert!(&x * b == mi && &x * &b == mi && x * &b == mi);
                let mut z = x; z += &y; assert!(z == s);
                let mut z = x; z -= y; assert!(z == d);
                let mut z = x; z *= &y; assert!(z == m);
                let mut z = x; z *= &b; assert!(z == mi);
                if b != 0 {
                    let (q, r, qi, ri) = (x / y, x % y, x / b, x % b);
                    assert!(&x / &y == q && &x / y == q && x / &y == q);
                    assert!(&x % &y == r && &x % y == r && x % &y == r);
                    assert!(&x / b == qi && x / &b == qi && &x / &b == qi);
                    assert!(&x % b == ri && x % &b == ri && &x % &b == ri);
                    let mut z = x; z /= &y; assert!(z == q);
                    let mut z = x; z %= &y; assert!(z == r);
                    let mut z = x; z /= b; assert!(z == qi);
                    let mut z = x; z %= &b; assert!(z == ri);
                }
            }
            #[cfg(kani)]
            #[kani::proof]
            pub fn bit_and_shift_ops() {
                let (a, b): ($T, $T) = (kani::any(), kani::any());
                let (x, y) = (Wrapping(Fx::from_bits(a)), Wrapping(Fx::from_bits(b)));
                assert!((x & y).to_bits() == a & b && (x | y).to_bits() == a | b && (x ^ y).to_bits() == a ^ b && (!x).to_bits() == !a);
                assert!((&x & &y) == (x & y) && (&x | y) == (x | y) && (x ^ &y) == (x ^ y) && (!&x) == !x);
                let mut z = x; z &= y; assert!(z == x & y);
                let mut z = x; z |= &y; assert!(z == x | y);
                let mut z = x; z ^= y; assert!(z == x ^ y);
                // shift amounts of every integer type are reduced modulo the width
                let n8: i8 = kani::any();
                assert!((x << n8).to_bits() == a.wrapping_shl(n8 as u32) && (x >> n8).to_bits() == a.wrapping_shr(n8 as u32));
                let n32: u32 = kani::any();
                assert!((x << n32).to_bits() == a.wrapping_shl(n32) && (x >> n32).to_bits() == a.wrapping_shr(n32));
                let n64: i64 = kani::any();
                assert!((x << n64).to_bits() == a.wrapping_shl(n64 as u32) && (x >> n64).to_bits() == a.wrapping_shr(n64 as u32));
                let n128: u128 = kani::any();
                assert!((x << n128).to_bits() == a.wrapping_shl(n128 as u32) && (x >> n128).to_bits() == a.wrapping_shr(n128 as u32));
                let nsz: usize = kani::any();
                assert!((x << nsz).to_bits() == a.wrapping_shl(nsz as u32));
                // by-reference forms of the shifts reduce the amount modulo the width of F as well
                assert!((&x << n8).to_bits() == a.wrapping_shl(n8 as u32) && (&x >> n8).to_bits() == a.wrapping_shr(n8 as u32));
                assert!((&x << &n32).to_bits() == a.wrapping_shl(n32) && (&x >> &n32).to_bits() == a.wrapping_shr(n32));
                assert!((x << &n64).to_bits() == a.wrapping_shl(n64 as u32) && (&x >> &n128).to_bits() == a.wrapping_shr(n128 as u32));
                let mut z = x; z <<= &n64; assert!(z == x << n64);
                let mut z = x; z <<= n8; assert!(z == x << n8);
                let mut z = x; z >>= n32; assert!(z == x >> n32);
                assert!(x.rotate_left(n32).to_bits() == a.rotate_left(n32) && x.rotate_right(n32).to_bits() == a.rotate_right(n32));
                assert!(x.count_ones() == a.count_ones() && x.leading_zeros() == a.leading_zeros() && x.trailing_zeros() == a.trailing_zeros());
            }
            #[cfg(kani)]
            #[kani::proof]
            pub fn rounding_and_conversion() {
                let a: $T = kani::any();
                let x = Wrapping(Fx::from_bits(a));
                let fx = Fx::from_bits(a);
                assert!(x.ceil() == Wrapping(fx.wrapping_ceil()) && x.floor() == Wrapping(fx.wrapping_floor()));
                assert!(x.round() == Wrapping(fx.wrapping_round()) && x.round_ties_to_even() == Wrapping(fx.wrapping_round_ties_to_even()));
                assert!(x.round_to_zero() == Wrapping(fx.round_to_zero()) && x.int() == Wrapping(fx.int()) && x.frac() == Wrapping(fx.frac()));
                let n: i32 = kani::any();
                assert!(W::from_num(n) == Wrapping(Fx::wrapping_from_num(n)));
                assert!(W::from_num(n).to_bits() == ((n as u32) << $f) as $T);
                let m: u64 = kani::any();
                assert!(W::from_num(m).to_bits() == (m << $f) as $T);
                assert!(x.to_num::<i16>() == fx.wrapping_to_num::<i16>());
                // conversion from bool: 1 * 2^f modulo 2^8 (0 for types that cannot hold 1; seed C04-H)
                let b: bool = kani::any();
                assert!(W::from_num(b).to_bits() == ((b as u32) << $f) as $T);
                assert!(W::from(fx) == x && W::from_bits(a) == x && x.to_bits() == a);
            }
        }
    };
}
wrap_twins!(i4f4, FixedI8, i8, true, U4, 4);
wrap_twins!(i0f8, FixedI8, i8, true, U8, 8);
wrap_twins!(i8f0, FixedI8, i8, true, U0, 0);
wrap_twins!(u4f4, FixedU8, u8, false, U4, 4);
wrap_twins!(u0f8, FixedU8, u8, false, U8, 8);
wrap_twins!(u8f0, FixedU8, u8, false, U0, 0);

#[cfg(kani)]
#[kani::proof]
pub fn signed_only_ops() {
    let a: i8 = kani::any();
    let x = Wrapping(FixedI8::<U5>::from_bits(a));
    assert!(x.abs().to_bits() == a.wrapping_abs());
    assert!(x.is_negative() == (a < 0) && x.is_positive() == (a > 0));
    // signum: -1, 0, 1 wrapped into the type (I3F5 represents both)
    assert!(x.signum().to_bits() == if a > 0 { 32 } else if a < 0 { -32 } else { 0 });
    let y = Wrapping(FixedI8::<U7>::from_bits(a));      // I1F7: 1 wraps to -1
    assert!(y.signum().to_bits() == if a == 0 { 0 } else { -128 });
}
macro_rules! fold_twin {
    ($name:ident, $Fx:ty, $T:ty, $f:expr, $signed:expr) => {
        #[cfg(kani)]
        #[kani::proof]
        #[kani::unwind(5)]
        pub fn $name() {
            let v: [$T; 3] = kani::any();
            let n: usize = kani::any();
            kani::assume(n <= 3);
            let xs = [Wrapping(<$Fx>::from_bits(v[0])), Wrapping(<$Fx>::from_bits(v[1])), Wrapping(<$Fx>::from_bits(v[2]))];
            // sum: exact sum modulo 2^8
            let mut es: i32 = 0;
            for i in 0..n { es += v[i] as i32; }
            let s: Wrapping<$Fx> = xs[..n].iter().sum();
            assert!(s.to_bits() == es as $T);
            let s2: Wrapping<$Fx> = xs[..n].iter().cloned().sum();
            assert!(s2 == s);
            // product: left fold of the wrapping product; the empty product is one (wrapped into the type)
            let p: Wrapping<$Fx> = xs[..n].iter().product();
            let p2: Wrapping<$Fx> = xs[..n].iter().cloned().product();
            assert!(p == p2);
            if n == 0 {
                assert!(p.to_bits() == (1i32 << $f) as $T);
            } else {
                let mut e = v[0] as i32;
                for i in 1..n { e = pol($signed, floor_div(e * v[i] as i32, 1i32 << $f)).wrapped; }
                assert!(p.to_bits() == e as $T);
            }
        }
    };
}
fold_twin!(fold_i4f4, FixedI8<U4>, i8, 4, true);
fold_twin!(fold_i1f7, FixedI8<U7>, i8, 7, true);
fold_twin!(fold_i0f8, FixedI8<U8>, i8, 8, true);
fold_twin!(fold_u0f8, FixedU8<U8>, u8, 8, false);
fold_twin!(fold_u4f4, FixedU8<U4>, u8, 4, false);

// ---- the parsing forwarders of Wrapping<F> (FromStr::from_str, from_str_binary / _octal / _hex): exactly the wrapping parser of F.
// BOUND: ASCII strings of at most 4 bytes; I4F4 and U4F4.  (The forwarders are also under a Verus contract, generic over F, in unit wrapping;
// this harness is the counterexample generator and covers a body that falls outside the unit's subset.)
macro_rules! parse_forwarders {
    ($name:ident, $Fx:ty) => {
        #[cfg(kani)]
        #[kani::proof]
        #[kani::unwind(8)]
        pub fn $name() {
            let bytes: [u8; 4] = kani::any();
            let len: usize = kani::any();
            kani::assume(len <= 4);
            kani::assume(bytes[0] < 128 && bytes[1] < 128 && bytes[2] < 128 && bytes[3] < 128);
            let s: &str = unsafe { core::str::from_utf8_unchecked(&bytes[..len]) };
            let which: u8 = kani::any();
            let (w, e) = match which & 3 {
                0 => (<Wrapping<$Fx> as core::str::FromStr>::from_str(s), <$Fx>::wrapping_from_str(s)),
                1 => (Wrapping::<$Fx>::from_str_binary(s), <$Fx>::wrapping_from_str_binary(s)),
                2 => (Wrapping::<$Fx>::from_str_octal(s), <$Fx>::wrapping_from_str_octal(s)),
                _ => (Wrapping::<$Fx>::from_str_hex(s), <$Fx>::wrapping_from_str_hex(s)),
            };
            match (w, e) {
                (Ok(a), Ok(b)) => assert!(a.0 == b),
                (Err(_), Err(_)) => {}
                _ => assert!(false),
            }
            // an out-of-range literal is reachable and must wrap, not fail
            kani::cover!(which & 3 == 0 && <$Fx>::overflowing_from_str(s).map(|t| t.1).unwrap_or(false));
        }
    };
}
parse_forwarders!(parse_forwarders_i4f4, FixedI8<U4>);
parse_forwarders!(parse_forwarders_u4f4, FixedU8<U4>);
