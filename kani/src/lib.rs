//! Kani proof harnesses over the real substrate-fixed crate (path dependency on /repo, hooks on).
//! Every harness is loop-free or closes its loops with unwinding assertions; operands are `kani::any()`
//! over the full domain, the 8-bit layouts are dispatched on a symbolic fractional-bit count.
#![allow(unused_imports, dead_code, unused_macros, clippy::all)]
#![cfg_attr(kani, feature(stmt_expr_attributes, proc_macro_hygiene))]

#[macro_use]
pub mod common;
pub mod arith8;
pub mod tofixed;
pub mod round8;
pub mod rem8;
pub mod cmp8;
pub mod conv8;
pub mod wrap8;
pub mod codec;
pub mod transc;
pub mod widediv;
pub mod selftest;
pub mod parse;
pub mod display;
pub mod floatglue;
pub mod float;
