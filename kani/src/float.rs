//! U8: float helpers under contract (C05, float part of C03), every bit pattern x all 507 layouts.
use substrate_fixed::verif_hooks::*;
use crate::tofixed::layout_ok;

// ---------------------------------------------------------------- fixed -> float (from_to_float_helper)
// RNE(abs * 2^s) as u128; caller guarantees the result fits
fn rne_shift(abs: u128, s: i32) -> u128 {
    if s >= 0 { abs << (s as u32) } else {
        let sh = (-s) as u32;
        let q = abs >> sh;
        let rem = abs & ((1u128 << sh) - 1);
        let half = 1u128 << (sh - 1);
        if rem > half || (rem == half && (q & 1) == 1) { q + 1 } else { q }
    }
}
// IEEE-754 binary32 round-to-nearest-even encoding of abs * 2^-frac, written from the format definition
pub fn oracle_f32(neg: bool, abs: u128, frac: u32) -> u32 {
    let sign = if neg { 1u32 << 31 } else { 0 };
    if abs == 0 { return sign; }
    let p = 127 - abs.leading_zeros() as i32;
    let e = p - frac as i32;
    let t = if e - 23 > -149 { e - 23 } else { -149 };
    let m = rne_shift(abs, -(frac as i32) - t);
    let (be, mf): (i32, u128) = if m < (1 << 23) { (0, m) } else if m == (1 << 24) { (t + 24 + 127, 0) } else { (t + 23 + 127, m - (1 << 23)) };
    if be >= 255 { sign | 0x7f80_0000 } else { sign | ((be as u32) << 23) | mf as u32 }
}
pub fn oracle_f64(neg: bool, abs: u128, frac: u32) -> u64 {
    let sign = if neg { 1u64 << 63 } else { 0 };
    if abs == 0 { return sign; }
    let p = 127 - abs.leading_zeros() as i32;
    let e = p - frac as i32;
    let t = if e - 52 > -1074 { e - 52 } else { -1074 };
    let m = rne_shift(abs, -(frac as i32) - t);
    let (be, mf): (i32, u128) = if m < (1 << 52) { (0, m) } else if m == (1 << 53) { (t + 53 + 1023, 0) } else { (t + 52 + 1023, m - (1 << 52)) };
    if be >= 2047 { sign | 0x7ff0_0000_0000_0000 } else { sign | ((be as u64) << 52) | mf as u64 }
}
fn abs_ok(abs: u128, frac: u32, int: u32) -> bool {
    let w = frac + int;
    w == 128 || (abs >> w) == 0
}

#[kani::requires(layout_ok(frac, int) && abs_ok(abs, frac, int))]
#[kani::ensures(|r: &u32| *r == oracle_f32(neg, abs, frac))]
pub fn to_f32_bits(neg: bool, abs: u128, frac: u32, int: u32) -> u32 { from_to_float_f32(neg, abs, frac, int).to_bits() }
#[cfg(kani)]
#[kani::proof_for_contract(to_f32_bits)]
pub fn check_to_f32() { to_f32_bits(kani::any(), kani::any(), kani::any(), kani::any()); }

#[kani::requires(layout_ok(frac, int) && abs_ok(abs, frac, int))]
#[kani::ensures(|r: &u64| *r == oracle_f64(neg, abs, frac))]
pub fn to_f64_bits(neg: bool, abs: u128, frac: u32, int: u32) -> u64 { from_to_float_f64(neg, abs, frac, int).to_bits() }
#[cfg(kani)]
#[kani::proof_for_contract(to_f64_bits)]
pub fn check_to_f64() { to_f64_bits(kani::any(), kani::any(), kani::any(), kani::any()); }

// ---------------------------------------------------------------- float -> fixed (to_float_kind)
// returns (mag mod 2^128, huge (mag >= 2^128), direction of the rounding) for RNE(m * 2^k), m < 2^53
fn rne_scale(m: u64, k: i32) -> (u128, bool, i8) {
    if m == 0 { return (0, false, 0); }
    let m = m as u128;
    if k >= 0 {
        if k >= 128 { return (0, true, 0); }
        let v = m << (k as u32);
        (v, (v >> (k as u32)) != m, 0)
    } else {
        let s = (-(k as i64)) as u32;
        if s >= 66 { return (0, false, -1); }
        let q = m >> s;
        let rem = m & ((1u128 << s) - 1);
        let half = 1u128 << (s - 1);
        if rem == 0 { (q, false, 0) } else if rem > half || (rem == half && q & 1 == 1) { (q + 1, false, 1) } else { (q, false, -1) }
    }
}
// class: 0 finite with value (-1)^neg * m * 2^e, 1 infinite, 2 NaN
pub fn kind_ok(k: Kind, neg: bool, m: u64, e: i32, fd: u32, id: u32, class: u8) -> bool {
    if class == 1 { return k == Kind::Infinite { neg }; }
    if class == 2 { return k == Kind::NaN; }
    let (mag, huge, dirmag) = rne_scale(m, e + fd as i32);
    let d = fd + id;
    match k {
        Kind::Finite { neg: n, conv } => {
            let x_neg = neg && (mag != 0 || huge);
            let bits = if neg { mag.wrapping_neg() } else { mag };
            let ovf = if huge { true } else if !x_neg { if d >= 128 { false } else { (mag >> d) != 0 } } else { mag > (1u128 << (d - 1)) };
            n == (neg && m != 0) && conv.neg_variant == x_neg && conv.dir == (if neg { -dirmag } else { dirmag })
                && conv.bits == bits && conv.overflow == ovf
        }
        _ => false,
    }
}
fn decode_f32(bits: u32) -> (bool, u64, i32, u8) {
    let neg = bits >> 31 != 0; let be = (bits >> 23) & 0xff; let mf = (bits & 0x7f_ffff) as u64;
    let class = if be == 255 { if mf == 0 { 1 } else { 2 } } else { 0 };
    let (m, e) = if be == 0 { (mf, -149) } else { (mf | (1 << 23), be as i32 - 150) };
    (neg, m, e, class)
}
fn decode_f64(bits: u64) -> (bool, u64, i32, u8) {
    let neg = bits >> 63 != 0; let be = ((bits >> 52) & 0x7ff) as u32; let mf = bits & 0xf_ffff_ffff_ffff;
    let class = if be == 2047 { if mf == 0 { 1 } else { 2 } } else { 0 };
    let (m, e) = if be == 0 { (mf, -1074) } else { (mf | (1 << 52), be as i32 - 1075) };
    (neg, m, e, class)
}

#[kani::requires(layout_ok(fd, id))]
#[kani::ensures(|k: &Kind| { let (neg, m, e, class) = decode_f32(bits); kind_ok(*k, neg, m, e, fd, id, class) })]
pub fn kind_f32(bits: u32, fd: u32, id: u32) -> Kind { to_float_kind_f32(f32::from_bits(bits), fd, id) }
#[cfg(kani)]
#[kani::proof_for_contract(kind_f32)]
pub fn check_kind_f32() { kind_f32(kani::any(), kani::any(), kani::any()); }

#[kani::requires(layout_ok(fd, id))]
#[kani::ensures(|k: &Kind| { let (neg, m, e, class) = decode_f64(bits); kind_ok(*k, neg, m, e, fd, id, class) })]
pub fn kind_f64(bits: u64, fd: u32, id: u32) -> Kind { to_float_kind_f64(f64::from_bits(bits), fd, id) }
#[cfg(kani)]
#[kani::proof_for_contract(kind_f64)]
pub fn check_kind_f64() { kind_f64(kani::any(), kani::any(), kani::any()); }
