//! wide_div.rs twins (C01): `div_rem_from` of the 8-bit instantiation of the `div_half!` / `*_wide_div_rem!`
//! macro bodies against the defining identity  n = q * d + r  (no divider in the oracle).
//! Complete for u8 / i8 only; the 128-bit instantiation (the one the library uses) shares the macro body.
use substrate_fixed::verif_hooks as hk;

#[cfg(kani)]
#[kani::proof]
pub fn div_rem_from_u8() {
    let (d, hi, lo): (u8, u8, u8) = (kani::any(), kani::any(), kani::any());
    kani::assume(d != 0);
    let ((q1, q0), r) = hk::div_rem_from_u8(d, hi, lo);
    let n = ((hi as u32) << 8) | lo as u32;
    let q = ((q1 as u32) << 8) | q0 as u32;
    assert!(r < d);
    assert!(q * d as u32 + r as u32 == n);
}
#[cfg(kani)]
#[kani::proof]
pub fn div_rem_from_i8() {
    let (d, hi, lo): (i8, i8, u8) = (kani::any(), kani::any(), kani::any());
    kani::assume(d != 0);
    let n = ((hi as i32) << 8) | lo as i32;
    kani::assume(!(n == -32768 && d == -1));
    let ((q1, q0), r) = hk::div_rem_from_i8(d, hi, lo);
    let q = ((q1 as i32) << 8) | q0 as i32;
    // truncating division: remainder has the sign of the dividend and is smaller than the divisor in magnitude
    assert!(q * d as i32 + r as i32 == n);
    assert!((r as i32).abs() < (d as i32).abs());
    assert!(r == 0 || (r < 0) == (n < 0));
}
// the quotient modulo 2^16 in the one overflowing case
#[cfg(kani)]
#[kani::proof]
pub fn div_rem_from_i8_min_by_minus_one() {
    let ((q1, q0), r) = hk::div_rem_from_i8(-1, -128, 0);
    assert!(q1 == -128 && q0 == 0 && r == 0);
}
