//! U3: `IntHelper::to_fixed_helper` for the ten primitive types, all 507 destination layouts and every source
//! fractional-bit count a caller can pass (floats reach -1100..=1300), against a shift-and-compare oracle that
//! never uses leading_zeros (C03, C04, C05).  Written as Kani function contracts on the hook wrappers.
use substrate_fixed::verif_hooks::*;

pub fn layout_ok(dst_frac: u32, dst_int: u32) -> bool {
    let w = dst_frac.wrapping_add(dst_int);
    dst_frac <= 128 && dst_int <= 128 && (w == 8 || w == 16 || w == 32 || w == 64 || w == 128)
}

// X = x * 2^(fd - fs) as an exact rational; the contract of DESIGN.md §5 C03:
//   dir == (X is an integer ? Equal : Less), bits == floor(X) mod 2^128 tagged Unsigned iff x >= 0,
//   overflow == !(x >= 0 ? floor(X) < 2^(fd+id) : floor(X) >= -2^(fd+id-1))
pub fn oracle_unsigned(x: u128, fs: i32, fd: u32, id: u32) -> Conv {
    if x == 0 { return Conv { neg_variant: false, bits: 0, dir: 0, overflow: false }; }
    let d = (fd + id) as i64;
    let k = fd as i64 - fs as i64;
    let (bits, dir, overflow);
    if k >= 0 {
        bits = if k >= 128 { 0 } else { x << k };
        dir = 0;
        let e = d - k;
        overflow = if e >= 128 { false } else if e < 0 { true } else { (x >> e) != 0 };
    } else {
        let s = -k;
        let q = if s >= 128 { 0 } else { x >> s };
        let lost = if s >= 128 { true } else { (q << s) != x };
        bits = q; dir = if lost { -1 } else { 0 };
        overflow = if d >= 128 { false } else { (q >> d) != 0 };
    }
    Conv { neg_variant: false, bits, dir, overflow }
}
pub fn oracle_signed(x: i128, fs: i32, fd: u32, id: u32) -> Conv {
    if x >= 0 { return oracle_unsigned(x as u128, fs, fd, id); }
    let d = (fd + id) as i64;
    let k = fd as i64 - fs as i64;
    let (bits, dir, overflow): (i128, i8, bool);
    if k >= 0 {
        bits = if k >= 128 { 0 } else { x << k };
        dir = 0;
        let e = d - 1 - k;
        overflow = if e < 0 { true } else if e >= 127 { false } else { x < -(1i128 << e) };
    } else {
        let s = -k;
        let q = if s >= 128 { -1 } else { x >> s };
        let lost = if s >= 128 { true } else { (q << s) != x };
        bits = q; dir = if lost { -1 } else { 0 };
        overflow = if d - 1 >= 127 { false } else { q < -(1i128 << (d - 1)) };
    }
    Conv { neg_variant: true, bits: bits as u128, dir, overflow }
}

macro_rules! contract_signed { ($w:ident, $h:ident, $T:ty, $f:ident) => {
    #[kani::requires(fs >= -1100 && fs <= 1300 && layout_ok(fd, id))]
    #[kani::ensures(|r: &Conv| *r == oracle_signed(x as i128, fs, fd, id))]
    pub fn $w(x: $T, fs: i32, fd: u32, id: u32) -> Conv { $f(x, fs, fd, id) }
    #[cfg(kani)]
    #[kani::proof_for_contract($w)]
    pub fn $h() { $w(kani::any(), kani::any(), kani::any(), kani::any()); }
}}
macro_rules! contract_unsigned { ($w:ident, $h:ident, $T:ty, $f:ident) => {
    #[kani::requires(fs >= -1100 && fs <= 1300 && layout_ok(fd, id))]
    #[kani::ensures(|r: &Conv| *r == oracle_unsigned(x as u128, fs, fd, id))]
    pub fn $w(x: $T, fs: i32, fd: u32, id: u32) -> Conv { $f(x, fs, fd, id) }
    #[cfg(kani)]
    #[kani::proof_for_contract($w)]
    pub fn $h() { $w(kani::any(), kani::any(), kani::any(), kani::any()); }
}}
contract_signed!(tfh_i8, check_tfh_i8, i8, to_fixed_helper_i8);
contract_signed!(tfh_i16, check_tfh_i16, i16, to_fixed_helper_i16);
contract_signed!(tfh_i32, check_tfh_i32, i32, to_fixed_helper_i32);
contract_signed!(tfh_i64, check_tfh_i64, i64, to_fixed_helper_i64);
contract_signed!(tfh_i128, check_tfh_i128, i128, to_fixed_helper_i128);
contract_unsigned!(tfh_u8, check_tfh_u8, u8, to_fixed_helper_u8);
contract_unsigned!(tfh_u16, check_tfh_u16, u16, to_fixed_helper_u16);
contract_unsigned!(tfh_u32, check_tfh_u32, u32, to_fixed_helper_u32);
contract_unsigned!(tfh_u64, check_tfh_u64, u64, to_fixed_helper_u64);
contract_unsigned!(tfh_u128, check_tfh_u128, u128, to_fixed_helper_u128);

// reachability guard behind the precondition (vacuity check): both tags and an overflow are reachable
#[cfg(kani)]
#[kani::proof]
pub fn cover_tfh() {
    let (x, fs, fd, id): (i32, i32, u32, u32) = (kani::any(), kani::any(), kani::any(), kani::any());
    kani::assume(fs >= -1100 && fs <= 1300 && layout_ok(fd, id));
    let r = to_fixed_helper_i32(x, fs, fd, id);
    kani::cover!(r.neg_variant && r.overflow);
    kani::cover!(!r.neg_variant && r.dir == -1 && !r.overflow);
}
