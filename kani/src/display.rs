//! C09 (bounded): the real formatters `fmt_dec` / `fmt_radix2` through the hook new-types (run-time frac_nbits) on
//! every 8-bit value and all nine layouts.  BOUNDS: 8-bit types only; precision <= P_MAX; width <= 12; one flag at a
//! time.  `core::str::from_utf8` inside pad_and_print is stubbed by its unchecked variant (the buffer holds ASCII,
//! which the digit assertions below check on the output).
use core::fmt::Write;
use substrate_fixed::verif_hooks::{FmtDec, FmtRadix2};

pub const P_MAX: usize = 9;
const CAP: usize = 28;

pub struct Sink { pub buf: [u8; CAP], pub len: usize }
impl Sink { pub fn new() -> Sink { Sink { buf: [0; CAP], len: 0 } } }
impl Write for Sink {
    fn write_str(&mut self, s: &str) -> core::fmt::Result {
        let b = s.as_bytes();
        let mut i = 0;
        while i < b.len() {
            if self.len < CAP { self.buf[self.len] = b[i]; self.len += 1; } else { return Err(core::fmt::Error); }
            i += 1;
        }
        Ok(())
    }
}
pub fn fake_from_utf8(v: &[u8]) -> Result<&str, core::str::Utf8Error> { Ok(unsafe { core::str::from_utf8_unchecked(v) }) }

// parse "[-]ddd[.ddd]" from the sink: (neg, all digits as one integer, number of fraction digits, well formed)
fn read_dec(s: &Sink) -> (bool, u64, usize, bool) {
    let mut val: u64 = 0; let mut fd: usize = 0; let mut seen_pt = false; let mut neg = false; let mut ok = true; let mut nd = 0;
    let mut i = 0;
    while i < CAP {
        if i < s.len {
            let c = s.buf[i];
            if i == 0 && c == b'-' { neg = true; }
            else if c == b'.' { if seen_pt { ok = false; } seen_pt = true; }
            else if c >= b'0' && c <= b'9' { val = val * 10 + (c - b'0') as u64; nd += 1; if seen_pt { fd += 1; } }
            else { ok = false; }
        }
        i += 1;
    }
    (neg, val, fd, ok && nd >= 1 && !(seen_pt && fd == 0))
}
fn pow10(k: usize) -> u64 { let mut p: u64 = 1; let mut j = 0; while j < P_MAX + 4 { if j < k { p *= 10; } j += 1; } p }
// round-to-nearest, ties-to-even of abs * 10^k / 2^f
fn rne_dec(abs: u8, f: u32, k: usize) -> u64 {
    let num = abs as u64 * pow10(k); let den = 1u64 << f;
    let q = num / den; let rem = num % den;
    if 2 * rem > den || (2 * rem == den && q % 2 == 1) { q + 1 } else { q }
}
// default `{}`: the printed decimal is the correct rounding of the value at the number of digits shown, and it
// parses back to the same value (it lies within half an ulp; a tie resolves to an even bit pattern)
#[cfg(kani)]
#[kani::proof]
#[kani::unwind(30)]
#[kani::stub(core::str::from_utf8, fake_from_utf8)]
pub fn display_default() {
    let abs: u8 = kani::any();
    let neg: bool = kani::any();
    let f: u32 = kani::any();
    kani::assume(f <= 8);
    kani::assume(!(neg && abs == 0));
    let mut s = Sink::new();
    let r = write!(s, "{}", FmtDec(neg, abs, f));
    assert!(r.is_ok());
    let (sneg, val, fd, ok) = read_dec(&s);
    assert!(ok && sneg == neg && fd <= 8);
    assert!(val == rne_dec(abs, f, fd));
    // round trip: |val / 10^fd - abs / 2^f| <= 2^-(f+1)
    let (a, b) = (val << f, abs as u64 * pow10(fd));
    let diff = if a > b { a - b } else { b - a };
    assert!(2 * diff < pow10(fd) || (2 * diff == pow10(fd) && abs % 2 == 0));
}

// `{:.p}`: exactly p fraction digits, the exact decimal expansion correctly rounded (ties to even)
#[cfg(kani)]
#[kani::proof]
#[kani::unwind(30)]
#[kani::stub(core::str::from_utf8, fake_from_utf8)]
pub fn display_precision() {
    let abs: u8 = kani::any();
    let f: u32 = kani::any();
    kani::assume(f <= 8);
    let p: usize = kani::any();
    kani::assume(p <= P_MAX);
    let mut s = Sink::new();
    let r = write!(s, "{:.*}", p, FmtDec(false, abs, f));
    assert!(r.is_ok());
    let (_n, val, fd, ok) = read_dec(&s);
    assert!(ok);
    assert!(fd == p);
    assert!(val == rne_dec(abs, f, p));
}
// sign, '+', zero padding and width only add prefix / padding around the same digits: each harness formats the
// value once with the flag and once plain (one flag at a time keeps the SAT problem small)
macro_rules! flag_harness {
    ($name:ident, $fmt:expr, $check:expr) => {
        #[cfg(kani)]
        #[kani::proof]
        #[kani::unwind(30)]
        #[kani::stub(core::str::from_utf8, fake_from_utf8)]
        pub fn $name() {
            let abs: u8 = kani::any();
            let neg: bool = kani::any();
            let f: u32 = kani::any();
            kani::assume(f <= 8);
            kani::assume(!(neg && abs == 0));
            let mut plain = Sink::new();
            assert!(write!(plain, "{}", FmtDec(false, abs, f)).is_ok());
            let mut s = Sink::new();
            assert!(write!(s, $fmt, FmtDec(neg, abs, f)).is_ok());
            let check: fn(&Sink, &Sink, bool) = $check;
            check(&plain, &s, neg);
        }
    };
}
fn same_digits(plain: &Sink, s: &Sink, off: usize) {
    let mut i = 0;
    while i < CAP { if i < plain.len { assert!(s.buf[i + off] == plain.buf[i]); } i += 1; }
}
flag_harness!(display_sign, "{}", |plain, s, neg| {
    let off = if neg { 1 } else { 0 };
    assert!(s.len == plain.len + off && (!neg || s.buf[0] == b'-'));
    same_digits(plain, s, off);
});
flag_harness!(display_plus, "{:+}", |plain, s, neg| {
    assert!(s.len == plain.len + 1 && s.buf[0] == if neg { b'-' } else { b'+' });
    same_digits(plain, s, 1);
});
flag_harness!(display_zero_pad, "{:012}", |plain, s, neg| {
    let off = if neg { 1 } else { 0 };
    assert!(s.len == 12 && (!neg || s.buf[0] == b'-'));
    assert!(plain.len + off >= 12 || s.buf[off] == b'0');
    same_digits(plain, s, 12 - plain.len);
});
flag_harness!(display_width, "{:7}", |plain, s, neg| {
    let off = if neg { 1 } else { 0 };
    assert!(s.len == if plain.len + off > 7 { plain.len + off } else { 7 });
});

// width together with a precision: the text of `{:.3}` padded to the width (padding must count the trailing zeros that
// pad_and_print writes separately from the digit buffer)
macro_rules! wp_harness {
    ($name:ident, $fmt:expr, $left:expr, $fill:expr) => {
        #[cfg(kani)]
        #[kani::proof]
        #[kani::unwind(30)]
        #[kani::stub(core::str::from_utf8, fake_from_utf8)]
        pub fn $name() {
            let abs: u8 = kani::any();
            let f: u32 = kani::any();
            kani::assume(f <= 8);
            let mut plain = Sink::new();
            assert!(write!(plain, "{:.3}", FmtDec(false, abs, f)).is_ok());
            let mut s = Sink::new();
            assert!(write!(s, $fmt, FmtDec(false, abs, f)).is_ok());
            let w = if plain.len > 10 { plain.len } else { 10 };
            assert!(s.len == w);
            let pad = w - plain.len;
            let off = if $left { 0 } else { pad };
            same_digits(&plain, &s, off);
            let mut i = 0;
            while i < CAP { if i < pad { assert!(s.buf[if $left { plain.len + i } else { i }] == $fill); } i += 1; }
        }
    };
}
wp_harness!(display_width_precision, "{:>10.3}", false, b' ');
wp_harness!(display_width_precision_left, "{:<10.3}", true, b' ');
wp_harness!(display_width_precision_zero, "{:010.3}", false, b'0');

// radix 2^k: `{:x}` / `{:b}` / `{:o}` print the exact value; '#' adds the prefix
fn read_radix(s: &Sink, start: usize, radix: u32) -> (u64, usize, bool) {
    let mut val: u64 = 0; let mut fd: usize = 0; let mut seen_pt = false; let mut ok = true;
    let mut i = 0;
    while i < CAP {
        if i >= start && i < s.len {
            let c = s.buf[i];
            if c == b'.' { if seen_pt { ok = false; } seen_pt = true; }
            else {
                let d: u32 = if c >= b'0' && c <= b'9' { (c - b'0') as u32 } else if c >= b'a' && c <= b'f' { (c - b'a') as u32 + 10 }
                             else if c >= b'A' && c <= b'F' { (c - b'A') as u32 + 10 } else { 99 };
                if d >= radix { ok = false; } else { val = val * radix as u64 + d as u64; if seen_pt { fd += 1; } }
            }
        }
        i += 1;
    }
    (val, fd, ok)
}
macro_rules! radix_harness {
    ($name:ident, $fmt:expr, $radix:expr, $bits:expr, $start:expr, $maxfd:expr) => {
        #[cfg(kani)]
        #[kani::proof]
        #[kani::unwind(30)]
        #[kani::stub(core::str::from_utf8, fake_from_utf8)]
        pub fn $name() {
            let abs: u8 = kani::any();
            let f: u32 = kani::any();
            kani::assume(f <= 8);
            let mut s = Sink::new();
            assert!(write!(s, $fmt, FmtRadix2(false, abs, f)).is_ok());
            if $start == 2 { assert!(s.len >= 3 && s.buf[0] == b'0'); }
            // exact: val / radix^fd == abs / 2^f   <=>   val * 2^f == abs * radix^fd
            let (val, fd, ok) = read_radix(&s, $start, $radix);
            assert!(ok && fd <= $maxfd && (val << f) == (abs as u64) << ($bits * fd as u32));
        }
    };
}
radix_harness!(display_lower_hex, "{:x}", 16, 4, 0, 2);
radix_harness!(display_upper_hex, "{:X}", 16, 4, 0, 2);
radix_harness!(display_binary, "{:b}", 2, 1, 0, 8);
radix_harness!(display_octal, "{:o}", 8, 3, 0, 3);
radix_harness!(display_alt_hex, "{:#x}", 16, 4, 2, 2);

// ---- 16-bit layouts (BOUNDED: u16 patterns, all 17 layouts symbolic): the per-width code of `impl_radix_helper!` that the 8-bit
// instance never runs - u16 delegates to the u8 helper when fewer than 8 bits are in use (`attempt_half`)
macro_rules! radix_harness16 {
    ($name:ident, $fmt:expr, $radix:expr, $bits:expr, $maxfd:expr) => {
        #[cfg(kani)]
        #[kani::proof]
        #[kani::unwind(30)]
        #[kani::stub(core::str::from_utf8, fake_from_utf8)]
        pub fn $name() {
            let abs: u16 = kani::any();
            let f: u32 = kani::any();
            kani::assume(f <= 16);
            let mut s = Sink::new();
            assert!(write!(s, $fmt, FmtRadix2(false, abs, f)).is_ok());
            let (val, fd, ok) = read_radix(&s, 0, $radix);
            assert!(ok && fd <= $maxfd && (val << f) == (abs as u64) << ($bits * fd as u32));
        }
    };
}
radix_harness16!(display_lower_hex_u16, "{:x}", 16, 4, 4);
radix_harness16!(display_octal_u16, "{:o}", 8, 3, 6);
// default `{}` of a 16-bit value: well formed, and the printed decimal parses back to the same bit pattern (within half an ulp)
#[cfg(kani)]
#[kani::proof]
#[kani::unwind(30)]
#[kani::stub(core::str::from_utf8, fake_from_utf8)]
pub fn display_default_u16() {
    let abs: u16 = kani::any();
    let f: u32 = kani::any();
    kani::assume(f <= 16);
    let mut s = Sink::new();
    assert!(write!(s, "{}", FmtDec(false, abs, f)).is_ok());
    let (neg, val, fd, ok) = read_dec(&s);
    assert!(ok && !neg && fd <= 5);
    // |val / 10^fd - abs / 2^f| <= 2^-(f+1)   <=>   |val * 2^(f+1) - abs * 2 * 10^fd| <= 10^fd
    let p = pow10(fd);
    let lhs = (val as u128) << (f + 1);
    let rhs = (abs as u128) * 2 * (p as u128);
    let diff = if lhs >= rhs { lhs - rhs } else { rhs - lhs };
    assert!(diff < p as u128 || (diff == p as u128 && abs % 2 == 0));
}

// 32-bit values (BOUNDED: u32 patterns, all 33 layouts symbolic): u32 delegates to the u16 helper and that to the u8 helper
#[cfg(kani)]
#[kani::proof]
#[kani::unwind(40)]
#[kani::stub(core::str::from_utf8, fake_from_utf8)]
pub fn display_lower_hex_u32() {
    let abs: u32 = kani::any();
    let f: u32 = kani::any();
    kani::assume(f <= 32);
    let mut s = Sink::new();
    assert!(write!(s, "{:x}", FmtRadix2(false, abs, f)).is_ok());
    let (val, fd, ok) = read_radix(&s, 0, 16);
    assert!(ok && fd <= 8 && ((val as u128) << f) == (abs as u128) << (4 * fd as u32));
}
