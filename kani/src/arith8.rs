//! C01 / C02 twins on the 8-bit instantiation (complete for 8-bit types only; never counted for other widths).
//! * `mul_overflow`/`div_overflow` helpers through the hook wrappers with a *symbolic* frac_nbits: all 9 layouts.
//! * the public checked/saturating/wrapping/overflowing forms at the boundary layouts.
use crate::common::*;
use substrate_fixed::verif_hooks as hk;

macro_rules! helper_twins {
    ($modname:ident, $T:ty, $signed:expr, $mul:path, $div:path) => {
        pub mod $modname {
            use super::*;
            #[cfg(kani)]
            #[kani::proof]
            pub fn mul_overflow_all_fracs() {
                let (a, b): ($T, $T) = (kani::any(), kani::any());
                let f = any_frac8();
                let p = pol($signed, floor_div(a as i32 * b as i32, 1i32 << f));
                assert!($mul(a, b, f) == (p.wrapped as $T, !p.fits));
            }
            #[cfg(kani)]
            #[kani::proof]
            pub fn div_overflow_all_fracs() {
                let (a, b): ($T, $T) = (kani::any(), kani::any());
                let f = any_frac8();
                kani::assume(b != 0);
                let p = pol($signed, ((a as i32) << f) / (b as i32));
                assert!($div(a, b, f) == (p.wrapped as $T, !p.fits));
            }
        }
    };
}
helper_twins!(h_i8, i8, true, hk::mul_overflow_i8, hk::div_overflow_i8);
helper_twins!(h_u8, u8, false, hk::mul_overflow_u8, hk::div_overflow_u8);

macro_rules! form_twins {
    ($modname:ident, $Fixed:ident, $T:ty, $signed:expr, $F:ident, $f:expr) => {
        pub mod $modname {
            use super::*;
            type Fx = $Fixed<$F>;
            fn fx(b: i32) -> Fx { Fx::from_bits(b as $T) }
            #[cfg(kani)]
            #[kani::proof]
            pub fn mul_forms() {
                let (a, b): ($T, $T) = (kani::any(), kani::any());
                let r = floor_div(a as i32 * b as i32, 1i32 << $f);
                let p = pol($signed, r);
                let (x, y) = (Fx::from_bits(a), Fx::from_bits(b));
                assert!(x.overflowing_mul(y) == (fx(p.wrapped), !p.fits));
                assert!(x.wrapping_mul(y) == fx(p.wrapped));
                assert!(x.saturating_mul(y) == fx(p.clamped));
                assert!(x.checked_mul(y) == if p.fits { Some(fx(r)) } else { None });
            }
            #[cfg(kani)]
            #[kani::proof]
            pub fn div_forms() {
                let (a, b): ($T, $T) = (kani::any(), kani::any());
                let (x, y) = (Fx::from_bits(a), Fx::from_bits(b));
                if b == 0 {
                    assert!(x.checked_div(y).is_none());
                } else {
                    let r = ((a as i32) << $f) / (b as i32);
                    let p = pol($signed, r);
                    assert!(x.overflowing_div(y) == (fx(p.wrapped), !p.fits));
                    assert!(x.wrapping_div(y) == fx(p.wrapped));
                    assert!(x.saturating_div(y) == fx(p.clamped));
                    assert!(x.checked_div(y) == if p.fits { Some(fx(r)) } else { None });
                }
            }
            #[cfg(kani)]
            #[kani::proof]
            pub fn add_sub_neg_forms() {
                let (a, b): ($T, $T) = (kani::any(), kani::any());
                let (x, y) = (Fx::from_bits(a), Fx::from_bits(b));
                let p = pol($signed, a as i32 + b as i32);
                assert!(x.overflowing_add(y) == (fx(p.wrapped), !p.fits));
                assert!(x.wrapping_add(y) == fx(p.wrapped));
                assert!(x.saturating_add(y) == fx(p.clamped));
                assert!(x.checked_add(y) == if p.fits { Some(fx(p.wrapped)) } else { None });
                let p = pol($signed, a as i32 - b as i32);
                assert!(x.overflowing_sub(y) == (fx(p.wrapped), !p.fits));
                assert!(x.wrapping_sub(y) == fx(p.wrapped));
                assert!(x.saturating_sub(y) == fx(p.clamped));
                assert!(x.checked_sub(y) == if p.fits { Some(fx(p.wrapped)) } else { None });
                let p = pol($signed, -(a as i32));
                assert!(x.overflowing_neg() == (fx(p.wrapped), !p.fits));
                assert!(x.wrapping_neg() == fx(p.wrapped));
                assert!(x.saturating_neg() == fx(p.clamped));
                assert!(x.checked_neg() == if p.fits { Some(fx(p.wrapped)) } else { None });
            }
            #[cfg(kani)]
            #[kani::proof]
            pub fn mul_div_int_forms() {
                let (a, n): ($T, $T) = (kani::any(), kani::any());
                let x = Fx::from_bits(a);
                let p = pol($signed, a as i32 * n as i32);
                assert!(x.overflowing_mul_int(n) == (fx(p.wrapped), !p.fits));
                assert!(x.wrapping_mul_int(n) == fx(p.wrapped));
                assert!(x.saturating_mul_int(n) == fx(p.clamped));
                assert!(x.checked_mul_int(n) == if p.fits { Some(fx(p.wrapped)) } else { None });
                if n == 0 {
                    assert!(x.checked_div_int(n).is_none());
                } else {
                    let p = pol($signed, a as i32 / n as i32);
                    assert!(x.overflowing_div_int(n) == (fx(p.wrapped), !p.fits));
                    assert!(x.wrapping_div_int(n) == fx(p.wrapped));
                    assert!(x.checked_div_int(n) == if p.fits { Some(fx(p.wrapped)) } else { None });
                }
            }
        }
    };
}
form_twins!(i4f4, FixedI8, i8, true, U4, 4);
form_twins!(i0f8, FixedI8, i8, true, U8, 8);
form_twins!(i8f0, FixedI8, i8, true, U0, 0);
form_twins!(u4f4, FixedU8, u8, false, U4, 4);
form_twins!(u0f8, FixedU8, u8, false, U8, 8);
form_twins!(u8f0, FixedU8, u8, false, U0, 0);

// C02: abs forms exist on the signed types only
#[cfg(kani)]
#[kani::proof]
pub fn abs_forms_i8() {
    let a: i8 = kani::any();
    type Fx = FixedI8<U2>;
    let x = Fx::from_bits(a);
    let p = pol(true, (a as i32).abs());
    assert!(x.overflowing_abs() == (Fx::from_bits(p.wrapped as i8), !p.fits));
    assert!(x.wrapping_abs() == Fx::from_bits(p.wrapped as i8));
    assert!(x.saturating_abs() == Fx::from_bits(p.clamped as i8));
    assert!(x.checked_abs() == if p.fits { Some(Fx::from_bits(p.wrapped as i8)) } else { None });
}
