//! Shared pieces: layout dispatch and machine-integer oracles written from the property statements.
pub use substrate_fixed::types::extra::*;
pub use substrate_fixed::*;

/// run `$body` with `$F` bound to the typenum for the run-time value `$f` (0..=8)
#[macro_export]
macro_rules! with_frac8 {
    ($f:expr, $F:ident => $body:expr) => {
        match $f {
            0 => { type $F = U0; $body }
            1 => { type $F = U1; $body }
            2 => { type $F = U2; $body }
            3 => { type $F = U3; $body }
            4 => { type $F = U4; $body }
            5 => { type $F = U5; $body }
            6 => { type $F = U6; $body }
            7 => { type $F = U7; $body }
            _ => { type $F = U8; $body }
        }
    };
}

pub fn any_frac8() -> u32 {
    let f: u32 = kani::any();
    kani::assume(f <= 8);
    f
}

/// floor(a / b) for b > 0 or b < 0
pub fn floor_div(a: i32, b: i32) -> i32 {
    let q = a / b;
    if a % b != 0 && ((a < 0) != (b < 0)) { q - 1 } else { q }
}

/// the four overflow policies of an exact result `r` for an 8-bit type
pub struct Pol { pub fits: bool, pub wrapped: i32, pub clamped: i32 }
pub fn pol(signed: bool, r: i32) -> Pol {
    let (min, max) = if signed { (-128i32, 127i32) } else { (0, 255) };
    let wrapped = if signed { (r as i8) as i32 } else { (r as u8) as i32 };
    Pol { fits: r >= min && r <= max, wrapped, clamped: if r < min { min } else if r > max { max } else { r } }
}
