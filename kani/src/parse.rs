//! C08 (bounded): the real parsers `from_str_u8` / `from_str_i8` (through the hook wrappers, run-time radix and
//! layout) on every byte string up to a stated length against the exactly rounded value of the literal.
//! BOUND: strings of at most L bytes (L below); 8-bit types; all nine layouts symbolic; complete within the bound.
use substrate_fixed::verif_hooks as hk;

pub const L: usize = 9;

// grammar of a literal, written independently of the tokeniser: [+|-] digit* [. digit*] with at least one digit
// returns (well_formed, error_code, neg, integer digits value, fraction digits value, radix^fraction_digits)
// error codes as in the hook: 1 invalid digit, 2 no digits, 3 too many points
fn scan(bytes: &[u8; L], len: usize, radix: u32, signed: bool) -> (u8, bool, u64, u64, u64) {
    let mut int_v: u64 = 0; let mut frac_v: u64 = 0; let mut scale: u64 = 1;
    let mut seen_pt = false; let mut ndig = 0u32; let mut neg = false;
    let mut err: u8 = 0;
    let mut i = 0;
    while i < L {
        if i < len && err == 0 {
            let c = bytes[i];
            if i == 0 && (c == b'+' || (c == b'-' && signed)) { neg = c == b'-'; }
            else if c == b'.' { if seen_pt { err = 3; } seen_pt = true; }
            else {
                let d: u32 = if c >= b'0' && c <= b'9' { (c - b'0') as u32 } else if c >= b'a' && c <= b'f' { (c - b'a') as u32 + 10 }
                             else if c >= b'A' && c <= b'F' { (c - b'A') as u32 + 10 } else { 99 };
                if d >= radix { err = 1; }
                else { ndig += 1; if seen_pt { frac_v = frac_v * radix as u64 + d as u64; scale *= radix as u64; } else { int_v = int_v * radix as u64 + d as u64; } }
            }
        }
        i += 1;
    }
    if err == 0 && ndig == 0 { err = 2; }
    (err, neg, int_v, frac_v, scale)
}
// round-to-nearest, ties-to-even of (int_v + frac_v / scale) * 2^f
fn rounded(int_v: u64, frac_v: u64, scale: u64, f: u32) -> u64 {
    let num = (int_v * scale + frac_v) << f;
    let q = num / scale; let rem = num % scale;
    if 2 * rem > scale || (2 * rem == scale && q % 2 == 1) { q + 1 } else { q }
}

macro_rules! parse_unsigned {
    ($name:ident, $radix:expr, $maxlen:expr) => {
        #[cfg(kani)]
        #[kani::proof]
        #[kani::unwind(11)]
        pub fn $name() {
            let bytes: [u8; L] = kani::any();
            let len: usize = kani::any();
            kani::assume(len <= $maxlen);
            let f: u32 = kani::any();
            kani::assume(f <= 8);
            // a sign is accepted for unsigned types too: "-0.001" is zero, any other negative value overflows
            let (err, neg, int_v, frac_v, scale) = scan(&bytes, len, $radix, true);
            let r = hk::from_str_u8(&bytes[..len], $radix, 8 - f, f);
            if err != 0 {
                assert!(r.is_err());
            } else {
                let mag = rounded(int_v, frac_v, scale, f);
                let wrapped = if neg { (mag as u8).wrapping_neg() } else { mag as u8 };
                assert!(r == Ok((wrapped, mag >= 256 || (neg && mag > 0))));
            }
        }
    };
}
// decimal is the expensive radix (multiply-by-ten chains, a divider in the oracle): length <= 6 in the quick tier,
// <= 7 in the thorough tier; the power-of-two radices run at the full length L
parse_unsigned!(parse_u8_dec, 10, 6);
parse_unsigned!(parse_u8_dec_long, 10, 7);
parse_unsigned!(parse_u8_hex, 16, L);
parse_unsigned!(parse_u8_oct, 8, L);
parse_unsigned!(parse_u8_bin, 2, L);

macro_rules! parse_signed {
    ($name:ident, $radix:expr, $maxlen:expr) => {
        #[cfg(kani)]
        #[kani::proof]
        #[kani::unwind(11)]
        pub fn $name() {
            let bytes: [u8; L] = kani::any();
            let len: usize = kani::any();
            kani::assume(len <= $maxlen);
            let f: u32 = kani::any();
            kani::assume(f <= 8);
            let (err, neg, int_v, frac_v, scale) = scan(&bytes, len, $radix, true);
            let r = hk::from_str_i8(&bytes[..len], $radix, 8 - f, f);
            if err != 0 {
                assert!(r.is_err());
            } else {
                let mag = rounded(int_v, frac_v, scale, f);
                // value = +-mag ; fits iff -128 <= value <= 127 ; wrapped value modulo 2^8
                let fits = if neg { mag <= 128 } else { mag <= 127 };
                let wrapped = if neg { (mag as u8).wrapping_neg() as i8 } else { mag as u8 as i8 };
                assert!(r == Ok((wrapped, !fits)));
            }
        }
    };
}
parse_signed!(parse_i8_dec, 10, 6);
parse_signed!(parse_i8_dec_long, 10, 7);
parse_signed!(parse_i8_hex, 16, L);

// the error kinds of the three syntactic classes, and the public policy forms on one concrete layout
#[cfg(kani)]
#[kani::proof]
#[kani::unwind(11)]
pub fn parse_error_kinds() {
    let bytes: [u8; L] = kani::any();
    let len: usize = kani::any();
    kani::assume(len <= L);
    let (err, _neg, _i, _f, _s) = scan(&bytes, len, 10, true);
    let r = hk::from_str_i8(&bytes[..len], 10, 4, 4);
    if err == 2 { assert!(r == Err(2)); }
    if err == 0 { assert!(r.is_ok()); }
    if err != 0 { assert!(r.is_err()); }
}

// ---- the policy forms of the public API (impl_from_str_traits!): plain / saturating / wrapping against the overflowing form,
// which the harnesses above decide.  BOUND: ASCII strings of at most 4 bytes; I4F4 and U4F4; decimal and hexadecimal.
macro_rules! policy_forms {
    ($name:ident, $T:ty, $ovf:expr, $plain:expr, $sat:expr, $wrap:expr) => {
        #[cfg(kani)]
        #[kani::proof]
        #[kani::unwind(8)]
        pub fn $name() {
            use substrate_fixed::types::*;
            let bytes: [u8; 4] = kani::any();
            let len: usize = kani::any();
            kani::assume(len <= 4);
            kani::assume(bytes[0] < 128 && bytes[1] < 128 && bytes[2] < 128 && bytes[3] < 128);
            // ASCII only, so the slice is valid UTF-8
            let s: &str = unsafe { core::str::from_utf8_unchecked(&bytes[..len]) };
            let o = ($ovf)(s);
            let p = ($plain)(s);
            let sa = ($sat)(s);
            let w = ($wrap)(s);
            match o {
                Err(_) => { assert!(p.is_err() && sa.is_err() && w.is_err()); }
                Ok((v, false)) => { assert!(p == Ok(v) && sa == Ok(v) && w == Ok(v)); }
                Ok((v, true)) => {
                    // plain: an overflow error; saturating: the bound on the literal's side; wrapping: the wrapped value
                    assert!(p.is_err());
                    assert!(w == Ok(v));
                    let neg = len > 0 && bytes[0] == b'-';
                    kani::cover!(neg);
                    kani::cover!(!neg);
                    assert!(sa == Ok(if neg { <$T>::min_value() } else { <$T>::max_value() }));
                }
            }
        }
    };
}
use substrate_fixed::types::{I4F4, U4F4};
policy_forms!(policy_forms_u4f4_dec, U4F4, U4F4::overflowing_from_str, <U4F4 as core::str::FromStr>::from_str, U4F4::saturating_from_str, U4F4::wrapping_from_str);
policy_forms!(policy_forms_i4f4_dec, I4F4, I4F4::overflowing_from_str, <I4F4 as core::str::FromStr>::from_str, I4F4::saturating_from_str, I4F4::wrapping_from_str);
policy_forms!(policy_forms_i4f4_hex, I4F4, I4F4::overflowing_from_str_hex, I4F4::from_str_hex, I4F4::saturating_from_str_hex, I4F4::wrapping_from_str_hex);
policy_forms!(policy_forms_u4f4_oct, U4F4, U4F4::overflowing_from_str_octal, U4F4::from_str_octal, U4F4::saturating_from_str_octal, U4F4::wrapping_from_str_octal);
