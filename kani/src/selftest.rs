//! Self-test of the counterexample pipeline: this harness MUST fail (with a = 7); the driver's self-test runs it,
//! extracts the concrete value through Kani's concrete playback and checks that it is 7.  Never part of a property.
#[cfg(kani)]
#[kani::proof]
pub fn must_fail_with_seven() {
    let a: u8 = kani::any();
    let x = substrate_fixed::types::U4F4::from_bits(a);
    assert!(x.to_bits() != 7);
}
