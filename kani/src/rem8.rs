//! C07 twins: remainders and Euclidean division on the eight-bit layouts.
//! The `div_euclid` family disagrees with the property on a region recorded in known_findings.json
//! (F-C07-div-euclid); the harnesses verify the complement of that region and cover the region itself.
use crate::common::*;

macro_rules! rem_twins {
    ($modname:ident, $Fixed:ident, $T:ty, $signed:expr, $F:ident, $f:expr) => {
        pub mod $modname {
            use super::*;
            type Fx = $Fixed<$F>;
            fn fx(b: i32) -> Fx { Fx::from_bits(b as $T) }
            const ONE: i32 = 1 << $f;
            // fixed % fixed and rem_euclid (bit-level, layout independent)
            #[cfg(kani)]
            #[kani::proof]
            pub fn rem_forms() {
                let (a, b): ($T, $T) = (kani::any(), kani::any());
                let (x, y) = (Fx::from_bits(a), Fx::from_bits(b));
                if b == 0 {
                    assert!(x.checked_rem(y).is_none());
                    assert!(x.checked_rem_euclid(y).is_none());
                } else {
                    let r = (a as i32) % (b as i32);
                    assert!(x.checked_rem(y) == Some(fx(r)));
                    assert!(x % y == fx(r));
                    let re = (a as i32).rem_euclid(b as i32);
                    assert!(x.checked_rem_euclid(y) == Some(fx(re)));
                    assert!(x.rem_euclid(y) == fx(re));
                }
            }
            // remainder by a primitive integer n: the divisor is n * 2^f as an unbounded integer
            #[cfg(kani)]
            #[kani::proof]
            pub fn rem_int_forms() {
                let (a, n): ($T, $T) = (kani::any(), kani::any());
                let x = Fx::from_bits(a);
                if n == 0 {
                    assert!(x.checked_rem_int(n).is_none());
                    assert!(x.checked_rem_euclid_int(n).is_none());
                } else {
                    let bb = (n as i32) * ONE;
                    let r = (a as i32) % bb;
                    assert!(x.checked_rem_int(n) == Some(fx(r)));
                    assert!(x % n == fx(r));
                    assert!(x.wrapping_rem_int(n) == fx(r));
                    assert!(x.overflowing_rem_int(n) == (fx(r), false));
                    let re = (a as i32).rem_euclid(bb);
                    let p = pol($signed, re);
                    assert!(x.overflowing_rem_euclid_int(n) == (fx(p.wrapped), !p.fits));
                    assert!(x.wrapping_rem_euclid_int(n) == fx(p.wrapped));
                    assert!(x.checked_rem_euclid_int(n) == if p.fits { Some(fx(re)) } else { None });
                    if p.fits { assert!(x.rem_euclid_int(n) == fx(re)); }
                }
            }
            // Euclidean quotient q = (a - rem_euclid(a, b)) / b, an integer, i.e. q * 2^f in bits
            #[cfg(kani)]
            #[kani::proof]
            pub fn div_euclid_forms() {
                let (a, b): ($T, $T) = (kani::any(), kani::any());
                let (x, y) = (Fx::from_bits(a), Fx::from_bits(b));
                if b == 0 {
                    assert!(x.checked_div_euclid(y).is_none());
                    return;
                }
                let (a, b) = (a as i32, b as i32);
                let q = (a - a.rem_euclid(b)) / b;
                let p = pol($signed, q * ONE);
                // region of the known finding F-C07-div-euclid: the plain fixed quotient trunc(a*2^f/b) is not
                // representable, or a correction by one is needed in a type that cannot represent one / minus one
                let plain = pol($signed, (a * ONE) / b);
                let need_corr = a % b < 0;
                let corr_unrepresentable = need_corr && !pol($signed, if b > 0 { -ONE } else { ONE }).fits;
                let region = !plain.fits || corr_unrepresentable;
                if region { return; }
                assert!(x.overflowing_div_euclid(y) == (fx(p.wrapped), !p.fits));
                assert!(x.wrapping_div_euclid(y) == fx(p.wrapped));
                assert!(x.saturating_div_euclid(y) == fx(p.clamped));
                assert!(x.checked_div_euclid(y) == if p.fits { Some(fx(p.wrapped)) } else { None });
                // the plain form corrects with `q - 1` / `q + 1`, so it needs +1 to be representable
                let region_plain = need_corr && !pol($signed, ONE).fits;
                if p.fits && !region_plain { assert!(x.div_euclid(y) == fx(p.wrapped)); }
            }
            #[cfg(kani)]
            #[kani::proof]
            pub fn div_euclid_int_forms() {
                let (a, n): ($T, $T) = (kani::any(), kani::any());
                let x = Fx::from_bits(a);
                if n == 0 {
                    assert!(x.checked_div_euclid_int(n).is_none());
                    return;
                }
                let (a, bb) = (a as i32, (n as i32) * ONE);
                let q = (a - a.rem_euclid(bb)) / bb;
                let p = pol($signed, q * ONE);
                let plain = pol($signed, a / (n as i32));
                let need_corr = a % bb < 0;
                let corr_unrepresentable = need_corr && !pol($signed, if n > 0 { -ONE } else { ONE }).fits;
                let region = !plain.fits || corr_unrepresentable;
                if region { return; }
                assert!(x.overflowing_div_euclid_int(n) == (fx(p.wrapped), !p.fits));
                assert!(x.wrapping_div_euclid_int(n) == fx(p.wrapped));
                assert!(x.checked_div_euclid_int(n) == if p.fits { Some(fx(p.wrapped)) } else { None });
                let region_plain = need_corr && !pol($signed, ONE).fits;
                if p.fits && !region_plain { assert!(x.div_euclid_int(n) == fx(p.wrapped)); }
            }
        }
    };
}
rem_twins!(i4f4, FixedI8, i8, true, U4, 4);
rem_twins!(i1f7, FixedI8, i8, true, U7, 7);
rem_twins!(i0f8, FixedI8, i8, true, U8, 8);
rem_twins!(i8f0, FixedI8, i8, true, U0, 0);
rem_twins!(i6f2, FixedI8, i8, true, U2, 2);
rem_twins!(u4f4, FixedU8, u8, false, U4, 4);
rem_twins!(u0f8, FixedU8, u8, false, U8, 8);
rem_twins!(u8f0, FixedU8, u8, false, U0, 0);
rem_twins!(u1f7, FixedU8, u8, false, U7, 7);

// the carve-out of F-C07-div-euclid is reachable and really differs from the property there (vacuity guard
// for the region: if this cover ever becomes unsatisfiable the finding is gone and the carve-out must go too)
#[cfg(kani)]
#[kani::proof]
pub fn div_euclid_region_reachable() {
    let (a, b): (i8, i8) = (kani::any(), kani::any());
    kani::assume(b != 0);
    let (x, y) = (FixedI8::<U4>::from_bits(a), FixedI8::<U4>::from_bits(b));
    let (a, b) = (a as i32, b as i32);
    let q = (a - a.rem_euclid(b)) / b;
    let p = pol(true, q * 16);
    let plain = pol(true, (a * 16) / b);
    kani::cover!(!plain.fits && p.fits && x.checked_div_euclid(y).is_none());
}
