//! C03 twins: comparisons between fixed-point types of all 18 eight-bit layouts (both fracs symbolic), a sample
//! of cross-width pairs, primitive integers, and f32/f64 (every bit pattern) against the exact ordering.
use crate::common::*;
use core::cmp::Ordering;

fn ord_i64(l: i64, r: i64) -> Ordering { l.cmp(&r) }

macro_rules! check_ops {
    ($x:expr, $y:expr, $o:expr) => {{
        let (x, y, o) = ($x, $y, $o);
        assert!(x.partial_cmp(&y) == Some(o));
        assert!((x == y) == (o == Ordering::Equal));
        assert!((x != y) == (o != Ordering::Equal));
        assert!((x < y) == (o == Ordering::Less));
        assert!((x <= y) == (o != Ordering::Greater));
        assert!((x > y) == (o == Ordering::Greater));
        assert!((x >= y) == (o != Ordering::Less));
    }};
}

// core operators only (le / gt / ge are one-line derivations from lt with swapped operands; see derived_ops)
macro_rules! check_core {
    ($x:expr, $y:expr, $o:expr) => {{
        let (x, y, o) = ($x, $y, $o);
        assert!(x.partial_cmp(&y) == Some(o));
        assert!((x == y) == (o == Ordering::Equal));
        assert!((x < y) == (o == Ordering::Less));
        assert!((y < x) == (o == Ordering::Greater));
        assert!((y == x) == (o == Ordering::Equal));
        assert!(y.partial_cmp(&x) == Some(o.reverse()));
    }};
}
// one lhs layout per harness, rhs layout symbolic: 9 layout pairs each; 3 sign pairs (both orders are checked
// inside) x 9 lhs layouts = all 324 ordered pairs of eight-bit layouts
macro_rules! cmp8 {
    ($name:ident, $L:ident, $LT:ty, $FA:ident, $fa:expr, $R:ident, $RT:ty) => {
        #[cfg(kani)]
        #[kani::proof]
        pub fn $name() {
            let (a, b): ($LT, $RT) = (kani::any(), kani::any());
            let fb = any_frac8();
            let o = ord_i64((a as i64) << fb, (b as i64) << $fa);
            with_frac8!(fb, FB => {
                check_core!($L::<$FA>::from_bits(a), $R::<FB>::from_bits(b), o);
            });
        }
    };
}
macro_rules! cmp8_all {
    ($($n:ident, $FA:ident, $fa:expr;)*) => { $(
        pub mod $n {
            use super::*;
            cmp8!(i8_vs_i8, FixedI8, i8, $FA, $fa, FixedI8, i8);
            cmp8!(i8_vs_u8, FixedI8, i8, $FA, $fa, FixedU8, u8);
            cmp8!(u8_vs_u8, FixedU8, u8, $FA, $fa, FixedU8, u8);
        }
    )* };
}
cmp8_all! { l0, U0, 0; l1, U1, 1; l2, U2, 2; l3, U3, 3; l4, U4, 4; l5, U5, 5; l6, U6, 6; l7, U7, 7; l8, U8, 8; }

#[cfg(kani)]
#[kani::proof]
pub fn derived_ops() {
    let (a, b): (i8, u8) = (kani::any(), kani::any());
    let o = ord_i64((a as i64) << 7, (b as i64) << 2);
    check_ops!(FixedI8::<U2>::from_bits(a), FixedU8::<U7>::from_bits(b), o);
    check_ops!(FixedU8::<U7>::from_bits(b), FixedI8::<U2>::from_bits(a), o.reverse());
}

// cross-width pairs at fixed layouts (the macro body is shared; this exercises the width-dependent casts)
macro_rules! cmpx {
    ($name:ident, $L:ident, $LT:ty, $FA:ident, $fa:expr, $R:ident, $RT:ty, $FB:ident, $fb:expr) => {
        #[cfg(kani)]
        #[kani::proof]
        pub fn $name() {
            let (a, b): ($LT, $RT) = (kani::any(), kani::any());
            let o = ((a as i128) << $fb).cmp(&((b as i128) << $fa));
            check_ops!($L::<$FA>::from_bits(a), $R::<$FB>::from_bits(b), o);
            check_ops!($R::<$FB>::from_bits(b), $L::<$FA>::from_bits(a), o.reverse());
        }
    };
}
cmpx!(x_i8f0_u16f0, FixedI8, i8, U0, 0, FixedU16, u16, U0, 0);
cmpx!(x_i16f3_u8f8, FixedI16, i16, U3, 3, FixedU8, u8, U8, 8);
cmpx!(x_i32f16_u32f0, FixedI32, i32, U16, 16, FixedU32, u32, U0, 0);
cmpx!(x_i8f2_i32f31, FixedI8, i8, U2, 2, FixedI32, i32, U31, 31);
cmpx!(x_u64f0_i8f7, FixedU64, u64, U0, 0, FixedI8, i8, U7, 7);
cmpx!(x_i64f20_u16f16, FixedI64, i64, U20, 20, FixedU16, u16, U16, 16);
cmpx!(x_i32f0_u64f32, FixedI32, i32, U0, 0, FixedU64, u64, U32, 32);

// 128-bit operands: the oracle compares (a * 2^fb) with (b * 2^fa) through the shifted-out high parts
#[cfg(kani)]
#[kani::proof]
pub fn x_i128f0_u128f0() {
    let (a, b): (i128, u128) = (kani::any(), kani::any());
    let o = if a < 0 { Ordering::Less } else { (a as u128).cmp(&b) };
    check_ops!(FixedI128::<U0>::from_bits(a), FixedU128::<U0>::from_bits(b), o);
    check_ops!(FixedU128::<U0>::from_bits(b), FixedI128::<U0>::from_bits(a), o.reverse());
}
#[cfg(kani)]
#[kani::proof]
pub fn x_i128f127_i8f0() {
    let (a, b): (i128, i8) = (kani::any(), kani::any());
    // a / 2^127 is in [-1, 1); b is an integer
    let o = if b >= 1 { Ordering::Less } else if b <= -2 { Ordering::Greater } else if b == 0 { a.cmp(&0) }
            else { if a == i128::MIN { Ordering::Equal } else { Ordering::Greater } };
    check_ops!(FixedI128::<U127>::from_bits(a), FixedI8::<U0>::from_bits(b), o);
    check_ops!(FixedI8::<U0>::from_bits(b), FixedI128::<U127>::from_bits(a), o.reverse());
}

// primitive integers on either side
macro_rules! cmp_int {
    ($name:ident, $L:ident, $LT:ty, $I:ty) => {
        #[cfg(kani)]
        #[kani::proof]
        pub fn $name() {
            let a: $LT = kani::any();
            let n: $I = kani::any();
            let fa = any_frac8();
            let n128 = n as i128;
            let o = if n128 > (1i128 << 100) { Ordering::Less } else if n128 < -(1i128 << 100) { Ordering::Greater }
                    else { (a as i128).cmp(&(n128 << fa)) };
            with_frac8!(fa, FA => {
                check_ops!($L::<FA>::from_bits(a), n, o);
                check_ops!(n, $L::<FA>::from_bits(a), o.reverse());
            });
        }
    };
}
cmp_int!(i8_vs_int_i8, FixedI8, i8, i8);
cmp_int!(i8_vs_int_u8, FixedI8, i8, u8);
cmp_int!(u8_vs_int_i16, FixedU8, u8, i16);
cmp_int!(i8_vs_int_u64, FixedI8, i8, u64);
cmp_int!(u8_vs_int_i128, FixedU8, u8, i128);
cmp_int!(i8_vs_int_usize, FixedI8, i8, usize);
cmp_int!(u8_vs_int_isize, FixedU8, u8, isize);

// same-type Eq / Ord / Hash coincide with the bits
#[cfg(kani)]
#[kani::proof]
pub fn same_type_eq_ord() {
    let (a, b): (i32, i32) = (kani::any(), kani::any());
    let (x, y) = (FixedI32::<U7>::from_bits(a), FixedI32::<U7>::from_bits(b));
    assert!(x.cmp(&y) == a.cmp(&b));
    assert!((x == y) == (a == b));
    assert!(x.partial_cmp(&y) == Some(a.cmp(&b)));
    let (a, b): (u64, u64) = (kani::any(), kani::any());
    let (x, y) = (FixedU64::<U64>::from_bits(a), FixedU64::<U64>::from_bits(b));
    assert!(x.cmp(&y) == a.cmp(&b));
    assert!((x == y) == (a == b));
}

// floats: exact comparison of a * 2^-f with (-1)^s * m * 2^e
fn float_ord(a: i64, f: u32, neg: bool, m: u64, e: i32) -> Ordering {
    // compare a * 2^-f with v = +-m * 2^e  <=>  a  vs  +-m * 2^(e+f)
    let k = e + f as i32;
    let a128 = a as i128;
    if m == 0 { return a128.cmp(&0); }
    let mm = if neg { -(m as i128) } else { m as i128 };
    if k >= 0 {
        if k > 40 { return if neg { Ordering::Greater } else { Ordering::Less }; }   // |v * 2^f| >= 2^41 > |a|
        a128.cmp(&(mm << k))
    } else {
        let s = -k;
        if s > 70 { return if a != 0 { a128.cmp(&0) } else if neg { Ordering::Greater } else { Ordering::Less }; }
        (a128 << s).cmp(&mm)
    }
}
macro_rules! check_float_ops {
    ($x:expr, $y:expr, $o:expr) => {{
        let (x, y, o): (_, _, Option<Ordering>) = ($x, $y, $o);
        assert!(x.partial_cmp(&y) == o);
        assert!((x == y) == (o == Some(Ordering::Equal)));
        assert!((x != y) == (o != Some(Ordering::Equal)));
        assert!((x < y) == (o == Some(Ordering::Less)));
        assert!((x <= y) == (o == Some(Ordering::Less) || o == Some(Ordering::Equal)));
        assert!((x > y) == (o == Some(Ordering::Greater)));
        assert!((x >= y) == (o == Some(Ordering::Greater) || o == Some(Ordering::Equal)));
    }};
}
macro_rules! check_float_core {
    ($x:expr, $y:expr, $o:expr) => {{
        let (x, y, o): (_, _, Option<Ordering>) = ($x, $y, $o);
        assert!(x.partial_cmp(&y) == o);
        assert!((x == y) == (o == Some(Ordering::Equal)));
        assert!((x < y) == (o == Some(Ordering::Less)));
        assert!((y < x) == (o == Some(Ordering::Greater)));
        assert!((y == x) == (o == Some(Ordering::Equal)));
        assert!(y.partial_cmp(&x) == o.map(Ordering::reverse));
    }};
}
fn f32_ord(a: i64, fa: u32, bits: u32) -> Option<Ordering> {
    let neg = bits >> 31 != 0; let be = (bits >> 23) & 0xff; let mf = (bits & 0x7f_ffff) as u64;
    if be == 255 { if mf != 0 { None } else if neg { Some(Ordering::Greater) } else { Some(Ordering::Less) } }
    else { let (m, e) = if be == 0 { (mf, -149) } else { (mf | (1 << 23), be as i32 - 150) };
           Some(float_ord(a, fa, neg, m, e)) }
}
fn f64_ord(a: i64, fa: u32, bits: u64) -> Option<Ordering> {
    let neg = bits >> 63 != 0; let be = ((bits >> 52) & 0x7ff) as u32; let mf = bits & 0xf_ffff_ffff_ffff;
    if be == 2047 { if mf != 0 { None } else if neg { Some(Ordering::Greater) } else { Some(Ordering::Less) } }
    else { let (m, e) = if be == 0 { (mf, -1074) } else { (mf | (1 << 52), be as i32 - 1075) };
           Some(float_ord(a, fa, neg, m, e)) }
}
macro_rules! cmp_float {
    ($name:ident, $L:ident, $LT:ty, $FA:ident, $fa:expr, $FT:ident, $BT:ty, $ord:ident) => {
        #[cfg(kani)]
        #[kani::proof]
        pub fn $name() {
            let a: $LT = kani::any();
            let bits: $BT = kani::any();
            let o = $ord(a as i64, $fa, bits);
            check_float_core!($L::<$FA>::from_bits(a), $FT::from_bits(bits), o);
        }
    };
}
macro_rules! cmp_float_all {
    ($($n:ident, $FA:ident, $fa:expr;)*) => { $(
        pub mod $n {
            use super::*;
            cmp_float!(i8_vs_f32, FixedI8, i8, $FA, $fa, f32, u32, f32_ord);
            cmp_float!(u8_vs_f32, FixedU8, u8, $FA, $fa, f32, u32, f32_ord);
            cmp_float!(i8_vs_f64, FixedI8, i8, $FA, $fa, f64, u64, f64_ord);
            cmp_float!(u8_vs_f64, FixedU8, u8, $FA, $fa, f64, u64, f64_ord);
        }
    )* };
}
cmp_float_all! { f0, U0, 0; f1, U1, 1; f2, U2, 2; f3, U3, 3; f4, U4, 4; f5, U5, 5; f6, U6, 6; f7, U7, 7; f8, U8, 8; }
// all six operators in both orders, NaN included (le / ge have their own NaN test in the code)
#[cfg(kani)]
#[kani::proof]
pub fn float_derived_ops() {
    let a: i8 = kani::any();
    let bits: u32 = kani::any();
    let o = f32_ord(a as i64, 3, bits);
    check_float_ops!(FixedI8::<U3>::from_bits(a), f32::from_bits(bits), o);
    check_float_ops!(f32::from_bits(bits), FixedI8::<U3>::from_bits(a), o.map(Ordering::reverse));
}
// a wider left-hand side
#[cfg(kani)]
#[kani::proof]
pub fn i32f0_vs_f32() {
    let a: i32 = kani::any();
    let bits: u32 = kani::any();
    let o = f32_ord(a as i64, 0, bits);
    check_float_core!(FixedI32::<U0>::from_bits(a), f32::from_bits(bits), o);
}
