//! C12 / C17 on concrete types: totality (no panic under overflow checks and debug assertions, which Kani
//! compiles in) and the iteration bound `ticks <= 4 * width + 64` read from the hook counter.
//! Whole domain for I9F23; stated ranges for wider types.  Loops are closed by unwinding assertions.
use crate::common::*;
use substrate_fixed::transcendental as tr;
use substrate_fixed::types::*;
use substrate_fixed::verif_hooks as hk;

const BOUND_32: u64 = 4 * 32 + 64;
const BOUND_64: u64 = 4 * 64 + 64;
const BOUND_128: u64 = 4 * 128 + 64;

fn abs_le_i9f23(x: I9F23, n: i32) -> bool { let b = x.to_bits(); b >= -(n << 23) && b <= (n << 23) }

// ---- sin / cos / tan : I9F23, every bit pattern with |x| <= 200 (sin, cos) resp. the tan domain
#[cfg(kani)]
#[kani::proof]
#[kani::unwind(70)]
pub fn sin_i9f23() {
    let x = I9F23::from_bits(kani::any());
    kani::assume(abs_le_i9f23(x, 200));
    hk::reset_ticks();
    let y = tr::sin(x);
    assert!(hk::ticks() <= BOUND_32);
    // result range clause (by-product): |sin| <= 1 + 2^-16
    assert!(y.to_bits() <= (1 << 23) + (1 << 7) && y.to_bits() >= -((1 << 23) + (1 << 7)));
}
#[cfg(kani)]
#[kani::proof]
#[kani::unwind(70)]
pub fn cos_i9f23() {
    let x = I9F23::from_bits(kani::any());
    kani::assume(abs_le_i9f23(x, 200));
    hk::reset_ticks();
    let y = tr::cos(x);
    assert!(hk::ticks() <= BOUND_32);
    assert!(y.to_bits() <= (1 << 23) + (1 << 7) && y.to_bits() >= -((1 << 23) + (1 << 7)));
}
// tan(x) = sin 2x / (1 + cos 2x): defined inputs are |x| <= 100 with |tan x| <= 64, inner-approximated by
// |x - k*pi| <= atan(64) - 2^-10 for some integer k (pi bounds in I9F23 units; k symbolic)
#[cfg(kani)]
#[kani::proof]
#[kani::unwind(70)]
pub fn tan_i9f23() {
    let b: i32 = kani::any();
    kani::assume(b >= -(100 << 23) && b <= (100 << 23));
    let k: i32 = kani::any();
    kani::assume(k >= -32 && k <= 32);
    // pi * 2^23 = 26353589.8, atan(64) * 2^23 = 13045729.6
    let centre_lo = k as i64 * 26353589 - if k >= 0 { 0 } else { 1 * (-k) as i64 };
    let centre_hi = k as i64 * 26353590 + if k >= 0 { 0 } else { 0 };
    let half = 13045729i64 - 8192 - 64;
    kani::assume((b as i64) >= core::cmp::max(centre_lo, centre_hi) - half && (b as i64) <= core::cmp::min(centre_lo, centre_hi) + half);
    hk::reset_ticks();
    let _y = tr::tan(I9F23::from_bits(b));
    assert!(hk::ticks() <= BOUND_32);
}

// ---- exp / sqrt / log2 / ln : I9F23 -> I9F23, whole domain: Ok or Err, never a panic, bounded ticks
#[cfg(kani)]
#[kani::proof]
#[kani::unwind(34)]
pub fn exp_i9f23() {
    let x = I9F23::from_bits(kani::any());
    hk::reset_ticks();
    let r: Result<I9F23, ()> = tr::exp(x);
    assert!(hk::ticks() <= BOUND_32);
    if x.to_bits() == 0 { assert!(r == Ok(I9F23::from_bits(1 << 23))); }
}
#[cfg(kani)]
#[kani::proof]
#[kani::unwind(34)]
pub fn sqrt_i9f23() {
    let x = I9F23::from_bits(kani::any());
    hk::reset_ticks();
    let r: Result<I9F23, &'static str> = tr::sqrt(x);
    assert!(hk::ticks() <= BOUND_32);
    if x.to_bits() < 0 { assert!(r.is_err()); }
    if x.to_bits() == 0 || x.to_bits() == 1 << 23 { assert!(r == Ok(x)); }
    if let Ok(v) = r { assert!(v.to_bits() >= 0); }
}
#[cfg(kani)]
#[kani::proof]
#[kani::unwind(34)]
pub fn log2_i9f23() {
    let x = I9F23::from_bits(kani::any());
    hk::reset_ticks();
    let r: Result<I9F23, ()> = tr::log2(x);
    assert!(hk::ticks() <= BOUND_32);
    if x.to_bits() <= 0 { assert!(r.is_err()); }
}
#[cfg(kani)]
#[kani::proof]
#[kani::unwind(34)]
pub fn ln_i9f23() {
    let x = I9F23::from_bits(kani::any());
    hk::reset_ticks();
    let r: Result<I9F23, ()> = tr::ln(x);
    assert!(hk::ticks() <= BOUND_32);
    if x.to_bits() <= 0 { assert!(r.is_err()); }
}
#[cfg(kani)]
#[kani::proof]
#[kani::unwind(34)]
pub fn sqrt_u9f23() {
    let x = U9F23::from_bits(kani::any());
    hk::reset_ticks();
    let r: Result<U9F23, &'static str> = tr::sqrt(x);
    assert!(hk::ticks() <= BOUND_32);
}

// ---- wider types on stated ranges
#[cfg(kani)]
#[kani::proof]
#[kani::unwind(70)]
pub fn sin_i32f32() {
    let b: i64 = kani::any();
    kani::assume(b >= -(200i64 << 32) && b <= (200i64 << 32));
    hk::reset_ticks();
    let y = tr::sin(I32F32::from_bits(b));
    assert!(hk::ticks() <= BOUND_64);
    assert!(y.to_bits() <= (1i64 << 32) + (1 << 16) && y.to_bits() >= -((1i64 << 32) + (1 << 16)));
}
#[cfg(kani)]
#[kani::proof]
#[kani::unwind(70)]
pub fn cos_i32f32() {
    let b: i64 = kani::any();
    kani::assume(b >= -(200i64 << 32) && b <= (200i64 << 32));
    hk::reset_ticks();
    let _y = tr::cos(I32F32::from_bits(b));
    assert!(hk::ticks() <= BOUND_64);
}
#[cfg(kani)]
#[kani::proof]
#[kani::unwind(70)]
pub fn sin_i64f64() {
    let b: i128 = kani::any();
    kani::assume(b >= -(200i128 << 64) && b <= (200i128 << 64));
    hk::reset_ticks();
    let _y = tr::sin(I64F64::from_bits(b));
    assert!(hk::ticks() <= BOUND_128);
}
#[cfg(kani)]
#[kani::proof]
#[kani::unwind(66)]
pub fn exp_i32f32() {
    let x = I32F32::from_bits(kani::any());
    hk::reset_ticks();
    let _r: Result<I32F32, ()> = tr::exp(x);
    assert!(hk::ticks() <= BOUND_64);
}

// ---- C17 on the whole domain (no restriction on the magnitude of the angle): iteration count only
// unwind = bound + 2: an unwinding-assertion failure here means more iterations than C17 allows
#[cfg(kani)]
#[kani::proof]
#[kani::unwind(194)]
pub fn sin_ticks_i9f23_whole_domain() {
    let x = I9F23::from_bits(kani::any());
    hk::reset_ticks();
    let _y = tr::sin(x);
    assert!(hk::ticks() <= BOUND_32);
}
#[cfg(kani)]
#[kani::proof]
#[kani::unwind(322)]
pub fn sin_ticks_i32f32_whole_domain() {
    let x = I32F32::from_bits(kani::any());
    hk::reset_ticks();
    let _y = tr::sin(x);
    assert!(hk::ticks() <= BOUND_64);
}

// the bit patterns of the module's constants that the Verus units transc / trig use (their templates restate the values)
#[cfg(kani)]
#[kani::proof]
pub fn const_values() {
    assert!(tr::ZERO.to_bits() == 0 && tr::ONE.to_bits() == 0x80_0000 && tr::TWO.to_bits() == 0x100_0000);
    assert!(tr::PI.to_bits() == 26353589 && tr::TWO_PI.to_bits() == 52707178 && tr::FRAC_PI_2.to_bits() == 13176794);
    assert!(tr::LOG2_E.to_bits() == 12102203 && tr::E.to_bits() == 22802600);
}


// tan on a second, wider type (thorough): |x| <= 100 and |x - k*pi| <= atan(64) - 2^-10 for some integer k, in I32F32 units
#[cfg(kani)]
#[kani::proof]
#[kani::unwind(70)]
pub fn tan_i32f32() {
    let b: i64 = kani::any();
    kani::assume(b >= -(100i64 << 32) && b <= (100i64 << 32));
    let k: i64 = kani::any();
    kani::assume(k >= -32 && k <= 32);
    // pi * 2^32 = 13493037704.5, atan(64) * 2^32 = 6679415448.8
    let centre_lo = k * 13493037704 - if k >= 0 { 0 } else { -k };
    let centre_hi = k * 13493037705;
    let half = 6679415448i64 - (1 << 22) - 64;
    kani::assume(b >= core::cmp::max(centre_lo, centre_hi) - half && b <= core::cmp::min(centre_lo, centre_hi) + half);
    hk::reset_ticks();
    let _y = tr::tan(I32F32::from_bits(b));
    assert!(hk::ticks() <= BOUND_64);
}
