#!/bin/sh
# Offline setup: warm the macro-expansion cache and pre-build the Kani harness crate (if present).
set -e
cd "$(dirname "$0")"
mkdir -p .work evidence replay
export CARGO_NET_OFFLINE=true
python3 - <<'PY'
import sys, os
sys.path.insert(0, 'tools')
import driver
p, th, s = driver.expand()
print("expanded", p, th, "%.1fs" % s)
PY
if [ -x tools/kani_setup.sh ]; then tools/kani_setup.sh || echo "kani warm-up failed (checks will build on demand)"; fi
echo setup-ok
