// ---- oracles/schoolbook.rs: the Kani oracle of kani/src/arith128.rs (same text) verified against mathematics ----
// mul_256: (hi, lo) with hi * 2^128 + lo == a * b ; shr_256: floor of the 256-bit value / 2^f
pub open spec fn C() -> int { 0x1_0000_0000_0000_0000int }
pub open spec fn M() -> int { 0x1_0000_0000_0000_0000_0000_0000_0000_0000int }

pub proof fn lemma_ovf_add_u128(x: int, y: int)
    requires 0 <= x < M(), 0 <= y < M()
    ensures wrap(false, 128, x + y) == (if x + y >= M() { x + y - M() } else { x + y }), !fits(false, 128, x + y) == (x + y >= M())
{
    lemma_p2_consts();
    if x + y >= M() { lemma_wrap_unique(false, 128, x + y, x + y - M(), -1); } else { lemma_wrap_id(false, 128, x + y); }
}

pub proof fn lemma_limbs(a: int, b: int)
    requires 0 <= a < M(), 0 <= b < M()
    ensures ({ let (ah, al, bh, bl) = (a / C(), a % C(), b / C(), b % C());
        &&& a == ah * C() + al &&& b == bh * C() + bl
        &&& 0 <= ah < C() &&& 0 <= al < C() &&& 0 <= bh < C() &&& 0 <= bl < C()
        &&& 0 <= al * bl < M() &&& 0 <= al * bh < M() &&& 0 <= ah * bl < M() &&& 0 <= ah * bh < M()
        &&& al * bl <= (C() - 1) * (C() - 1) &&& al * bh <= (C() - 1) * (C() - 1) &&& ah * bl <= (C() - 1) * (C() - 1) &&& ah * bh <= (C() - 1) * (C() - 1)
        &&& a * b == (ah * bh) * M() + (al * bh + ah * bl) * C() + al * bl })
{
    let (ah, al, bh, bl) = (a / C(), a % C(), b / C(), b % C());
    lemma_fundamental_div_mod(a, C()); lemma_fundamental_div_mod(b, C());
    lemma_mod_bound(a, C()); lemma_mod_bound(b, C());
    assert(C() * C() == M()) by (compute);
    assert(0 <= ah < C() && 0 <= bh < C()) by (nonlinear_arith)
        requires a == C() * ah + al, b == C() * bh + bl, 0 <= al < C(), 0 <= bl < C(), 0 <= a < M(), 0 <= b < M(), M() == C() * C(), C() > 0;
    assert((C() - 1) * (C() - 1) < M()) by (compute);
    assert(0 <= al * bl <= (C() - 1) * (C() - 1)) by (nonlinear_arith) requires 0 <= al < C(), 0 <= bl < C();
    assert(0 <= al * bh <= (C() - 1) * (C() - 1)) by (nonlinear_arith) requires 0 <= al < C(), 0 <= bh < C();
    assert(0 <= ah * bl <= (C() - 1) * (C() - 1)) by (nonlinear_arith) requires 0 <= ah < C(), 0 <= bl < C();
    assert(0 <= ah * bh <= (C() - 1) * (C() - 1)) by (nonlinear_arith) requires 0 <= ah < C(), 0 <= bh < C();
    assert(a * b == (ah * bh) * M() + (al * bh + ah * bl) * C() + al * bl) by (nonlinear_arith)
        requires a == C() * ah + al, b == C() * bh + bl, M() == C() * C();
}

pub fn mul_256(a: u128, b: u128) -> (r: (u128, u128))
    ensures r.0 as int * M() + r.1 as int == a as int * b as int
{
    let M64: u128 = 0xffff_ffff_ffff_ffff;
    let (ah, al, bh, bl) = (a >> 64, a & M64, b >> 64, b & M64);
    proof {
        lemma_limbs(a as int, b as int);
        assert((a >> 64u32) as int == a as int / 0x1_0000_0000_0000_0000int && (a & 0xffff_ffff_ffff_ffffu128) as int == a as int % 0x1_0000_0000_0000_0000int) by (bit_vector);
        assert((b >> 64u32) as int == b as int / 0x1_0000_0000_0000_0000int && (b & 0xffff_ffff_ffff_ffffu128) as int == b as int % 0x1_0000_0000_0000_0000int) by (bit_vector);
        assert(C() * C() == M()) by (compute);
    }
    let ll = al.wrapping_mul(bl);
    let lh = al.wrapping_mul(bh);
    let hl = ah.wrapping_mul(bl);
    let hh = ah.wrapping_mul(bh);
    assert(ll as int == al as int * bl as int && lh as int == al as int * bh as int && hl as int == ah as int * bl as int && hh as int == ah as int * bh as int);
    let (mid, mid_carry) = lh.overflowing_add(hl);
    let (lo, c1) = ll.overflowing_add(mid << 64);
    proof {
        lemma_ovf_add_u128(lh as int, hl as int);
        lemma_ovf_add_u128(ll as int, (mid << 64u32) as int);
        assert((mid << 64u32) as int == (mid as int % 0x1_0000_0000_0000_0000int) * 0x1_0000_0000_0000_0000int && (mid >> 64u32) as int == mid as int / 0x1_0000_0000_0000_0000int) by (bit_vector);
        lemma_fundamental_div_mod(mid as int, C()); lemma_mod_bound(mid as int, C());
        let mh = mid as int / C(); let ml = mid as int % C();
        assert(mid as int * C() == mh * M() + ml * C()) by (nonlinear_arith) requires mid as int == C() * mh + ml, M() == C() * C();
        assert(0 <= mh < C()) by (nonlinear_arith) requires mid as int == C() * mh + ml, 0 <= ml < C(), 0 <= mid as int, (mid as int) < M(), M() == C() * C(), C() > 0;
        // the exact high word is below 2^128 because a * b < 2^256; so the additions into hi cannot wrap
        let mc: int = if mid_carry { 1 } else { 0 };
        let cc: int = if c1 { 1 } else { 0 };
        let him = hh as int + mh + mc * C() + cc;
        assert(lh as int + hl as int == mid as int + mc * M());
        assert(ll as int + ml * C() == lo as int + cc * M());
        assert(a as int * b as int == him * M() + lo as int) by (nonlinear_arith)
            requires a as int * b as int == (hh as int) * M() + (lh as int + hl as int) * C() + ll as int,
                     lh as int + hl as int == mid as int + mc * M(), mid as int * C() == mh * M() + ml * C(),
                     ll as int + ml * C() == lo as int + cc * M(), him == hh as int + mh + mc * C() + cc, M() == C() * C();
        let (ai, bi) = (a as int, b as int);
        assert(ai * bi < M() * M()) by (nonlinear_arith) requires 0 <= ai, ai < M(), 0 <= bi, bi < M();
        assert(him < M()) by (nonlinear_arith) requires him * M() + (lo as int) < M() * M(), (lo as int) >= 0, M() > 0;
        assert(1u128 << 64u32 == 0x1_0000_0000_0000_0000u128) by (bit_vector);
    }
    let hi = hh.wrapping_add(mid >> 64).wrapping_add(if mid_carry { 1u128 << 64 } else { 0 }).wrapping_add(c1 as u128);
    proof {
        assert(1u128 << 64u32 == 0x1_0000_0000_0000_0000u128) by (bit_vector);
        let mh = mid as int / C(); let ml = mid as int % C();
        let mc: int = if mid_carry { 1 } else { 0 };
        let cc: int = if c1 { 1 } else { 0 };
        assert(lh as int + hl as int == mid as int + mc * M());
        assert(ll as int + ml * C() == lo as int + cc * M());
        assert(hi as int == hh as int + mh + mc * C() + cc);
        assert(a as int * b as int == hi as int * M() + lo as int) by (nonlinear_arith)
            requires a as int * b as int == (hh as int) * M() + (lh as int + hl as int) * C() + ll as int,
                     lh as int + hl as int == mid as int + mc * M(), mid as int * C() == mh * M() + ml * C(),
                     ll as int + ml * C() == lo as int + cc * M(), hi as int == hh as int + mh + mc * C() + cc, M() == C() * C();
    }
    (hi, lo)
}
